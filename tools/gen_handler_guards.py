#!/usr/bin/env python3
"""Translator for the PROCESS-LEVEL GLUE: regenerates coq/gen/HandlerGuards.v from the CURRENT sources of
  connection_scan_algorithm/src/transit_routing_http_server.cpp
      the /updateCache handler: the parameter keys read as cache names / as custom path, the chain of
      `if (name == X || name == "all") { flag = true; transitData.updateX(path); }` blocks IN SOURCE ORDER, the flag and the
      string of accepted names, `dataStatus = transitData.getDataStatus()` after the loop, the success / error object;
      getFastErrorResponse / intializeResponse / getResponseCode: the value returned for every enumerator (the function is
      EVALUATED for each enumerator, so a switch, an if-chain and a table indexed by the enumerator read the same);
      the three /v2 handlers: fast path, factory, calculator method, exception -> response builder, status lines;
  src/transit_data.cpp + include/transit_data.hpp + include/parameters.hpp
      TransitData::loadAllData (order of the updates, the test after each, the final status), every TransitData::updateX
      (fetcher called, collection filled, does it clear the scenario connection cache, does it rebuild the sorted
      connection lists), the enumerators of DataStatus and ParameterException::Type.
Proofs/HandlerGuardsTie.v proves that the model (Params.v handle_update / response_code, Loader2.v handler_order /
update_name / update / load_steps, Server.v step, Http.v http_serve / render) is what these generated fragments say, so a
dropped `correctCacheName = true`, a removed alias, two swapped blocks, a reordered table, a dropped `clear()` in the source
breaks a proof obligation on the next run.

Method as tools/gen_loader_guards.py (self-contained copy of its text preparation and statement tree, plus `switch` and
string literals kept as numbered placeholders): statements are located by what they DO (calls on the non-local
`transitData`, `boost::split`, the `server.resource[...]` pattern text), never by the names of locals.

Policy: a fragment the translator cannot read is emitted as the committed hand-written definition and reported `fallback`
(no alarm by itself); a fragment it CAN read is emitted as read, and if that is not what the model does, the tie does not
compile."""
import os, re, sys, json

HERE = os.path.dirname(os.path.abspath(__file__))
VERIF = os.path.dirname(HERE)
REPO = os.environ.get("TRV_REPO", "/repo")
OUT = os.path.join(VERIF, "coq", "gen", "HandlerGuards.v")

SERVER_CPP = "connection_scan_algorithm/src/transit_routing_http_server.cpp"
DATA_CPP = "src/transit_data.cpp"
DATA_HPP = "include/transit_data.hpp"
PARAMS_HPP = "include/parameters.hpp"


class Untranslatable(Exception):
    pass


# ------------------------------------------------------------------------------------------------
# text preparation: comments removed, every string literal replaced by the identifier __S<k>__ (its unescaped text kept in
# a table), character literals by __C<k>__, preprocessor lines dropped

ESC = {"n": "\n", "r": "\r", "t": "\t", "\\": "\\", '"': '"', "'": "'", "0": "\0"}


class Text:
    def __init__(self, raw):
        self.lits = []
        out = []
        i, n = 0, len(raw)
        while i < n:
            ch = raw[i]
            if raw.startswith("//", i):
                while i < n and raw[i] != "\n":
                    i += 1
                continue
            if raw.startswith("/*", i):
                j = raw.find("*/", i + 2)
                i = n if j < 0 else j + 2
                out.append(" ")
                continue
            if ch in "\"'":
                q = ch
                i += 1
                buf = []
                while i < n and raw[i] != q:
                    if raw[i] == "\\" and i + 1 < n:
                        buf.append(ESC.get(raw[i + 1], raw[i + 1]))
                        i += 2
                    else:
                        buf.append(raw[i])
                        i += 1
                i += 1
                self.lits.append("".join(buf))
                out.append(" __%s%d__ " % ("S" if q == '"' else "C", len(self.lits) - 1))
                continue
            out.append(ch)
            i += 1
        text = "".join(out)
        text = "\n".join(l for l in text.split("\n") if not l.lstrip().startswith("#"))
        # adjacent string literals are one literal
        while True:
            m = re.search(r"__S(\d+)__\s+__S(\d+)__", text)
            if not m:
                break
            self.lits.append(self.lits[int(m.group(1))] + self.lits[int(m.group(2))])
            text = text[:m.start()] + "__S%d__" % (len(self.lits) - 1) + text[m.end():]
        self.text = text

    def lit(self, tok):
        m = re.fullmatch(r"__[SC](\d+)__", tok)
        return self.lits[int(m.group(1))] if m else None


def read(rel):
    return Text(open(os.path.join(REPO, rel)).read())


def balanced(s, i, o, c):
    if i >= len(s) or s[i] != o:
        raise Untranslatable("expected " + o)
    depth = 0
    for k in range(i, len(s)):
        if s[k] == o:
            depth += 1
        elif s[k] == c:
            depth -= 1
            if depth == 0:
                return s[i + 1:k], k + 1
    raise Untranslatable("unbalanced " + o)


def fn_body(src, sig_regex):
    """body of the function whose signature matches (the first `{` after the parameter list)"""
    m = re.search(sig_regex, src)
    if not m:
        raise Untranslatable("function not found: " + sig_regex)
    j = src.index("(", m.end() - 1) if src[m.end() - 1] != "(" else m.end() - 1
    _, j = balanced(src, j, "(", ")")
    k = src.index("{", j)
    if ";" in src[j:k]:
        raise Untranslatable("declaration, not definition: " + sig_regex)
    return balanced(src, k, "{", "}")[0]


def flat(t):
    return "".join(t.split())


# ------------------------------------------------------------------------------------------------
# statement tree: ('if', cond, then, else) ('for', header, body) ('while', cond, body) ('try', body, [(decl, handler)])
# ('switch', expr, items)  items: ('case', label) ('default',) or statements
# ('return', expr) ('break',) ('continue',) ('stmt', text); a bare block is spliced into the list it sits in

def skip_ws(s, i):
    while i < len(s) and s[i].isspace():
        i += 1
    return i


def kw_at(s, i, kw):
    j = i + len(kw)
    return s.startswith(kw, i) and (j >= len(s) or not (s[j].isalnum() or s[j] == "_")) and \
        (i == 0 or not (s[i - 1].isalnum() or s[i - 1] == "_"))


def parse_stmt(s, i, in_switch=False):
    i = skip_ws(s, i)
    if i >= len(s):
        raise Untranslatable("statement expected")
    if s[i] == "{":
        inner, j = balanced(s, i, "{", "}")
        return parse_list(inner, in_switch), j
    if s[i] == ";":
        return [], i + 1
    if kw_at(s, i, "if"):
        j = skip_ws(s, i + 2)
        cond, j = balanced(s, j, "(", ")")
        th, j = parse_stmt(s, j)
        k = skip_ws(s, j)
        el = []
        if kw_at(s, k, "else"):
            el, j = parse_stmt(s, k + 4)
        return [("if", flat(cond), th, el)], j
    if kw_at(s, i, "for"):
        j = skip_ws(s, i + 3)
        header, j = balanced(s, j, "(", ")")
        body, j = parse_stmt(s, j)
        return [("for", header, body)], j
    if kw_at(s, i, "while"):
        j = skip_ws(s, i + 5)
        cond, j = balanced(s, j, "(", ")")
        body, j = parse_stmt(s, j)
        return [("while", flat(cond), body)], j
    if kw_at(s, i, "switch"):
        j = skip_ws(s, i + 6)
        expr, j = balanced(s, j, "(", ")")
        j = skip_ws(s, j)
        inner, j = balanced(s, j, "{", "}")
        return [("switch", flat(expr), parse_list(inner, True))], j
    if in_switch and (kw_at(s, i, "case") or kw_at(s, i, "default")):
        k = i
        while k < len(s):
            if s[k] == ":" and not s.startswith("::", k) and not (k > 0 and s[k - 1] == ":"):
                break
            k += 1
        if k >= len(s):
            raise Untranslatable("label without `:`")
        if kw_at(s, i, "default"):
            return [("default",)], k + 1
        return [("case", flat(s[i + 4:k]))], k + 1
    if kw_at(s, i, "try"):
        j = skip_ws(s, i + 3)
        inner, j = balanced(s, j, "{", "}")
        handlers = []
        while True:
            k = skip_ws(s, j)
            if not kw_at(s, k, "catch"):
                break
            k = skip_ws(s, k + 5)
            decl, k = balanced(s, k, "(", ")")
            k = skip_ws(s, k)
            h, j = balanced(s, k, "{", "}")
            handlers.append((flat(decl), parse_list(h)))
        return [("try", parse_list(inner), handlers)], j
    for kw in ("do", "goto", "case", "default", "else", "catch"):
        if kw_at(s, i, kw):
            raise Untranslatable("unsupported statement `%s`" % kw)
    for kw in ("break", "continue"):
        if kw_at(s, i, kw):
            j = skip_ws(s, i + len(kw))
            if j < len(s) and s[j] == ";":
                return [(kw,)], j + 1
            raise Untranslatable("malformed `%s`" % kw)
    depth = 0
    k = i
    while k < len(s):
        ch = s[k]
        if ch in "([{":
            depth += 1
        elif ch in ")]}":
            depth -= 1
            if depth < 0:
                raise Untranslatable("unbalanced statement")
        elif ch == ";" and depth == 0:
            text = s[i:k]
            if kw_at(text, 0, "return"):
                return [("return", text[6:].strip())], k + 1
            return [("stmt", text.strip())], k + 1
        k += 1
    raise Untranslatable("statement without `;`: " + s[i:i + 40])


def parse_list(s, in_switch=False):
    out = []
    i = skip_ws(s, 0)
    while i < len(s):
        nodes, i = parse_stmt(s, i, in_switch)
        out += nodes
        i = skip_ws(s, i)
    return out


def all_lists(nodes):
    yield nodes
    for nd in nodes:
        if nd[0] == "if":
            yield from all_lists(nd[2])
            yield from all_lists(nd[3])
        elif nd[0] in ("for", "while", "switch"):
            yield from all_lists(nd[2])
        elif nd[0] == "try":
            yield from all_lists(nd[1])
            for _, h in nd[2]:
                yield from all_lists(h)


def all_nodes(nodes):
    for l in all_lists(nodes):
        for nd in l:
            yield nd


def is_log(nd):
    return nd[0] == "stmt" and re.match(r"(spdlog\s*::|std\s*::\s*cout\b|std\s*::\s*cerr\b)", nd[1]) is not None


def without_logs(nodes):
    return [nd for nd in nodes if not is_log(nd)]


IDENT = r"[A-Za-z_]\w*"


def split_args(text):
    out, depth, cur = [], 0, []
    for ch in text:
        if ch in "([{":
            depth += 1
        elif ch in ")]}":
            depth -= 1
        if ch == "," and depth == 0:
            out.append("".join(cur))
            cur = []
        else:
            cur.append(ch)
    out.append("".join(cur))
    return [flat(a) for a in out]


def split_top(text, sep):
    """split at the operator `sep` at bracket depth 0"""
    out, depth, cur, i = [], 0, [], 0
    while i < len(text):
        ch = text[i]
        if ch in "([{":
            depth += 1
        elif ch in ")]}":
            depth -= 1
        if depth == 0 and text.startswith(sep, i):
            out.append("".join(cur))
            cur = []
            i += len(sep)
            continue
        cur.append(ch)
        i += 1
    out.append("".join(cur))
    return out


def split_params(text):
    """a parameter list at its commas (template arguments count as brackets)"""
    out, depth, cur = [], 0, []
    for ch in text:
        if ch in "([{<":
            depth += 1
        elif ch in ")]}>":
            depth -= 1
        if ch == "," and depth == 0:
            out.append("".join(cur))
            cur = []
        else:
            cur.append(ch)
    out.append("".join(cur))
    return out


def strip_parens(t):
    t = flat(t)
    while t.startswith("("):
        try:
            inner, j = balanced(t, 0, "(", ")")
        except Untranslatable:
            break
        if j != len(t):
            break
        t = inner
    return t


# ------------------------------------------------------------------------------------------------
# Coq text

def coq_string(s):
    for ch in s:
        if ord(ch) < 32 or ord(ch) > 126:
            raise Untranslatable("character %d in a string that is emitted" % ord(ch))
    return '"' + s.replace('"', '""') + '"'


def coq_list(items):
    return "[" + "; ".join(items) + "]"


# ------------------------------------------------------------------------------------------------
# enumerations of the headers

def read_enum(hdr_text, regex):
    m = re.search(regex + r"\s*(?::\s*\w+\s*)?\{([^}]*)\}", hdr_text)
    if not m:
        raise Untranslatable("enumeration not found: " + regex)
    enum, nxt = [], 0
    for item in m.group(1).split(","):
        item = item.strip()
        if not item:
            continue
        im = re.fullmatch(r"(" + IDENT + r")(?:\s*=\s*(\d+))?", item)
        if not im:
            raise Untranslatable("enumerator " + item)
        val = int(im.group(2)) if im.group(2) is not None else nxt
        enum.append((im.group(1), val))
        nxt = val + 1
    return enum


# ------------------------------------------------------------------------------------------------
# a small evaluator of C++ expressions / function bodies on CONCRETE values: enumerators are their integers, string
# literals their text, brace lists are Python lists (or dicts for a std::map)

TOKEN = re.compile(r"\s*(__[SC]\d+__|[A-Za-z_]\w*(?:\s*::\s*[A-Za-z_]\w*)*|\d+[uUlL]*|->|\+\+|--|\|\||&&|==|!=|<=|>=|[-+*/%<>!()\[\]{}.,?:~&])")
INT_TYPES = {"int", "unsigned", "unsignedint", "size_t", "std::size_t", "long", "unsignedlong", "short", "char", "unsignedchar",
             "uint8_t", "uint32_t", "uint64_t", "int32_t", "int64_t", "std::uint8_t", "longlong", "unsignedlonglong", "auto"}
STR_TYPES = {"std::string", "string", "std::string_view"}
CASTS = {"static_cast", "reinterpret_cast", "const_cast"}


def tokens(text):
    out, i = [], 0
    text = text.strip()
    while i < len(text):
        m = TOKEN.match(text, i)
        if not m:
            raise Untranslatable("cannot read: " + text[i:i + 50])
        out.append(re.sub(r"\s+", "", m.group(1)))
        i = m.end()
        while i < len(text) and text[i].isspace():
            i += 1
    return out


class ExprParser:
    """tokens -> AST (no evaluation here: `a || b` must not evaluate b when a decides)"""
    def __init__(self, toks):
        self.t, self.i = toks, 0

    def peek(self, k=0):
        return self.t[self.i + k] if self.i + k < len(self.t) else None

    def eat(self, *ops):
        if self.peek() in ops:
            self.i += 1
            return self.t[self.i - 1]
        return None

    def need(self, op):
        if not self.eat(op):
            raise Untranslatable("expected `%s` at %s" % (op, " ".join(self.t[self.i:self.i + 6])))

    def parse(self):
        e = self.cond()
        if self.i != len(self.t):
            raise Untranslatable("trailing tokens: " + " ".join(self.t[self.i:self.i + 6]))
        return e

    def cond(self):
        c = self.lor()
        if self.eat("?"):
            a = self.cond()
            self.need(":")
            b = self.cond()
            return ("cond", c, a, b)
        return c

    def lor(self):
        l = self.land()
        while self.eat("||"):
            l = ("bin", "||", l, self.land())
        return l

    def land(self):
        l = self.eq()
        while self.eat("&&"):
            l = ("bin", "&&", l, self.eq())
        return l

    def eq(self):
        l = self.rel()
        while True:
            o = self.eat("==", "!=")
            if not o:
                return l
            l = ("bin", o, l, self.rel())

    def rel(self):
        l = self.add()
        while True:
            o = self.eat("<=", ">=", "<", ">")
            if not o:
                return l
            l = ("bin", o, l, self.add())

    def add(self):
        l = self.mul()
        while True:
            o = self.eat("+", "-")
            if not o:
                return l
            l = ("bin", o, l, self.mul())

    def mul(self):
        l = self.un()
        while True:
            o = self.eat("*", "/", "%")
            if not o:
                return l
            l = ("bin", o, l, self.un())

    def type_at(self, k):
        """number of tokens of a type name starting at offset k (0 = no type)"""
        n, words = 0, []
        while True:
            p = self.peek(k + n)
            if p in ("const", "unsigned", "long", "short", "int", "char") or (p is not None and (p in INT_TYPES or p in STR_TYPES) and not words):
                words.append(p)
                n += 1
                continue
            break
        name = "".join(w for w in words if w != "const")
        return (n, name) if name in INT_TYPES or name in STR_TYPES else (0, None)

    def un(self):
        if self.eat("!"):
            return ("un", "!", self.un())
        if self.eat("-"):
            return ("un", "-", self.un())
        if self.eat("+"):
            return self.un()
        if self.eat("*"):
            return ("un", "*", self.un())
        if self.peek() == "(":
            n, name = self.type_at(1)
            if n and self.peek(1 + n) == ")":      # C-style cast
                self.i += n + 2
                return ("cast", name, self.un())
        if self.peek() == "sizeof":
            self.i += 1
            if self.eat("("):
                e = self.cond()
                self.need(")")
            else:
                e = self.un()
            return ("sizeof", e)
        return self.post()

    def args(self, close):
        out = []
        if self.eat(close):
            return out
        while True:
            out.append(self.cond() if self.peek() != "{" else self.brace())
            if self.eat(close):
                return out
            self.need(",")

    def brace(self):
        self.need("{")
        return ("init", self.args("}"))

    def primary(self):
        p = self.peek()
        if p is None:
            raise Untranslatable("unexpected end of expression")
        if p == "(":
            self.i += 1
            e = self.cond()
            self.need(")")
            return e
        if p == "{":
            return self.brace()
        if re.fullmatch(r"__[SC]\d+__", p):
            self.i += 1
            return ("lit", p)
        if re.fullmatch(r"\d+[uUlL]*", p):
            self.i += 1
            return ("int", int(re.match(r"\d+", p).group(0)))
        if p in CASTS:
            self.i += 1
            self.need("<")
            depth, ty = 1, []
            while depth:
                q = self.peek()
                if q is None:
                    raise Untranslatable("unbalanced cast")
                self.i += 1
                if q == "<":
                    depth += 1
                elif q == ">":
                    depth -= 1
                if depth:
                    ty.append(q)
            self.need("(")
            e = self.cond()
            self.need(")")
            return ("cast", "".join(t for t in ty if t != "const"), e)
        n, name = self.type_at(0)
        if n and self.peek(n) in ("(", "{"):       # functional cast  T(e)  T{e}
            self.i += n
            close = ")" if self.eat("(") else ("}" if self.eat("{") else None)
            a = self.args(close)
            if len(a) > 1:
                raise Untranslatable("constructor %s with %d arguments" % (name, len(a)))
            return ("cast", name, a[0]) if a else ("lit0", name)
        if re.fullmatch(IDENT + r"(::" + IDENT + r")*", p):
            self.i += 1
            if p in ("true", "false"):
                return ("int", 1 if p == "true" else 0)
            if p == "nullptr":
                return ("null",)
            return ("id", p)
        raise Untranslatable("unexpected token " + p)

    def post(self):
        e = self.primary()
        while True:
            if self.eat("["):
                i = self.cond()
                self.need("]")
                e = ("index", e, i)
            elif self.eat("("):
                e = ("call", e, self.args(")"))
            elif self.eat("."):
                e = ("member", e, self.t[self.i])
                self.i += 1
            elif self.eat("->"):
                e = ("member", ("un", "*", e), self.t[self.i])
                self.i += 1
            else:
                return e


def parse_expr(text):
    return ExprParser(tokens(text)).parse()


class End:           # the end() iterator of a table
    def __init__(self, owner):
        self.owner = owner


class Iter:          # an iterator into a dict: the (key, value) pair it points at
    def __init__(self, owner, key):
        self.owner, self.key = owner, key


class Evaluator:
    def __init__(self, src, enums):
        """src: Text of the file; enums: {'DataStatus': {name: value}, ...}"""
        self.src, self.enums = src, enums

    def global_table(self, name):
        m = re.search(r"([^;{}]*?)\b" + re.escape(name) + r"\s*(\[\s*\w*\s*\])?\s*(=\s*)?\{", self.src.text)
        if not m:
            raise Untranslatable("unknown name " + name)
        inner, _ = balanced(self.src.text, m.end() - 1, "{", "}")
        v = self.ev(parse_expr("{" + inner + "}"), {})
        if re.search(r"\bmap\s*<", m.group(1)):
            d = {}
            for kv in v:
                if not (isinstance(kv, list) and len(kv) == 2):
                    raise Untranslatable("entry of the map " + name)
                d.setdefault(kv[0], kv[1])
            return d
        if len(v) == 1 and isinstance(v[0], list):      # std::array<T, N> x = {{ ... }}
            v = v[0]
        return v

    def ev(self, e, env):
        k = e[0]
        if k == "int":
            return e[1]
        if k == "lit":
            return self.src.lit(e[1])
        if k == "lit0":
            return "" if e[1] in STR_TYPES else 0
        if k == "null":
            return None
        if k == "id":
            name = e[1]
            if name in env:
                return env[name]
            if "::" in name:
                ty, _, en = name.rpartition("::")
                for tname, vals in self.enums.items():
                    if (ty == tname or tname.endswith("::" + ty) or ty.endswith("::" + tname)) and en in vals:
                        return vals[en]
                raise Untranslatable("unknown name " + name)
            if name not in env.setdefault("__globals__", {}):
                env["__globals__"][name] = self.global_table(name)
            return env["__globals__"][name]
        if k == "init":
            return [self.ev(x, env) for x in e[1]]
        if k == "cast":
            v = self.ev(e[2], env)
            ty = e[1]
            if ty in STR_TYPES or ty.endswith("string"):
                if not isinstance(v, str):
                    raise Untranslatable("string made of a non-string")
                return v
            if isinstance(v, int):
                return v
            raise Untranslatable("cast to %s of a non-integer" % ty)
        if k == "sizeof":
            v = self.ev(e[1], env)
            if isinstance(v, list):
                return ("sizeof", len(v), 1)
            return ("sizeof", 1, 1)
        if k == "cond":
            return self.ev(e[2], env) if self.truth(self.ev(e[1], env)) else self.ev(e[3], env)
        if k == "un":
            if e[1] == "!":
                return 0 if self.truth(self.ev(e[2], env)) else 1
            v = self.ev(e[2], env)
            if e[1] == "-":
                if not isinstance(v, int):
                    raise Untranslatable("negation of a non-integer")
                return -v
            if e[1] == "*":
                if isinstance(v, Iter):
                    return v
                if isinstance(v, list):
                    return v[0]
                raise Untranslatable("dereference")
        if k == "bin":
            op = e[1]
            if op == "||":
                return 1 if self.truth(self.ev(e[2], env)) or self.truth(self.ev(e[3], env)) else 0
            if op == "&&":
                return 1 if self.truth(self.ev(e[2], env)) and self.truth(self.ev(e[3], env)) else 0
            a, b = self.ev(e[2], env), self.ev(e[3], env)
            if op in ("==", "!="):
                if isinstance(a, (End, Iter)) or isinstance(b, (End, Iter)):
                    same = isinstance(a, End) and isinstance(b, End)
                else:
                    if type(a) != type(b):
                        raise Untranslatable("comparison of different kinds of values")
                    same = a == b
                return 1 if same == (op == "==") else 0
            if op == "/" and isinstance(a, tuple) and isinstance(b, tuple):      # sizeof(T) / sizeof(T[0])
                return a[1]
            if op == "+" and isinstance(a, str) and isinstance(b, str):
                return a + b
            if isinstance(a, int) and isinstance(b, int) and not isinstance(a, bool):
                if op in ("/", "%") and b == 0:
                    raise Untranslatable("division by zero")
                return {"+": a + b, "-": a - b, "*": a * b, "/": a // b if op == "/" else 0, "%": a % b if op == "%" else 0,
                        "<": int(a < b), "<=": int(a <= b), ">": int(a > b), ">=": int(a >= b)}[op]
            raise Untranslatable("operator %s on these values" % op)
        if k == "index":
            a, i = self.ev(e[1], env), self.ev(e[2], env)
            if isinstance(a, dict):
                if i not in a:
                    raise Untranslatable("operator[] inserts into a map")
                return a[i]
            if isinstance(a, list) and isinstance(i, int):
                if not 0 <= i < len(a):
                    raise Untranslatable("index %d outside a table of %d" % (i, len(a)))
                return a[i]
            raise Untranslatable("indexing")
        if k == "member":
            a = self.ev(e[1], env)
            if isinstance(a, Iter) and e[2] in ("first", "second"):
                return a.key if e[2] == "first" else a.owner[a.key]
            return ("bound", a, e[2])
        if k == "call":
            f = e[1]
            if f[0] == "member":
                a = self.ev(f[1], env)
                args = [self.ev(x, env) for x in e[2]]
                m = f[2]
                if isinstance(a, (list, dict, str)) and m in ("size", "length") and not args:
                    return len(a)
                if isinstance(a, (list, dict, str)) and m == "empty" and not args:
                    return int(len(a) == 0)
                if isinstance(a, (list, dict)) and m == "end" and not args:
                    return End(a)
                if isinstance(a, dict) and m == "count" and len(args) == 1:
                    return int(args[0] in a)
                if isinstance(a, dict) and m == "find" and len(args) == 1:
                    return Iter(a, args[0]) if args[0] in a else End(a)
                if isinstance(a, (list, dict)) and m == "at" and len(args) == 1:
                    if isinstance(a, dict):
                        if args[0] not in a:
                            raise Untranslatable("at() throws")
                        return a[args[0]]
                    if not (isinstance(args[0], int) and 0 <= args[0] < len(a)):
                        raise Untranslatable("at() throws")
                    return a[args[0]]
                raise Untranslatable("call of ." + m)
            if f[0] == "id" and f[1] in ("std::size", "std::ssize") and len(e[2]) == 1:
                v = self.ev(e[2][0], env)
                if isinstance(v, (list, dict)):
                    return len(v)
            raise Untranslatable("call of " + str(f)[:40])
        raise Untranslatable("expression " + k)

    @staticmethod
    def truth(v):
        if isinstance(v, int):
            return v != 0
        raise Untranslatable("condition is not an integer")

    # --- statements: returns the value of the first `return` reached
    class Ret(Exception):
        def __init__(self, v):
            self.v = v

    class Brk(Exception):
        pass

    def run(self, nodes, env):
        for nd in nodes:
            self.step(nd, env)

    def step(self, nd, env):
        k = nd[0]
        if k == "return":
            raise Evaluator.Ret(self.ev(parse_expr(nd[1]), env))
        if k == "if":
            self.run(nd[2] if self.truth(self.ev(parse_expr(nd[1]), env)) else nd[3], env)
            return
        if k == "switch":
            v = self.ev(parse_expr(nd[1]), env)
            items = nd[2]
            start = None
            for i, it in enumerate(items):
                if it[0] == "case" and self.ev(parse_expr(it[1]), env) == v:
                    start = i
                    break
            if start is None:
                for i, it in enumerate(items):
                    if it[0] == "default":
                        start = i
                        break
            if start is None:
                return
            try:
                for it in items[start:]:
                    if it[0] in ("case", "default"):
                        continue
                    self.step(it, env)
            except Evaluator.Brk:
                pass
            return
        if k == "break":
            raise Evaluator.Brk()
        if k == "stmt":
            if is_log(nd):
                return
            m = re.fullmatch(r"(?:(?:const|static|constexpr|auto|unsigned|long|[\w:]+(?:<[^;]*>)?)[\s&*]+)+(" + IDENT + r")\s*(?:=\s*(.*)|\{(.*)\}|\((.*)\))",
                             nd[1], flags=re.S)
            if m:
                rhs = m.group(2) if m.group(2) is not None else (m.group(3) if m.group(3) is not None else m.group(4))
                env[m.group(1)] = self.ev(parse_expr(rhs), env)
                return
            raise Untranslatable("statement: " + nd[1][:60])
        raise Untranslatable("statement kind " + k)

    def call(self, body_tree, param, value):
        env = {param: value}
        try:
            self.run(body_tree, env)
        except Evaluator.Ret as r:
            return r.v
        raise Untranslatable("the function can fall off its end")


def function_table(src, sig_regex, enum, enums):
    """the value of a one-parameter function for every enumerator, and for a value outside the enumeration"""
    m = re.search(sig_regex, src.text)
    if not m:
        raise Untranslatable("function not found: " + sig_regex)
    params, _ = balanced(src.text, m.end() - 1, "(", ")")
    pm = re.search(r"(" + IDENT + r")\s*$", params.strip())
    if not pm or "," in params:
        raise Untranslatable("parameter list: " + params)
    tree = parse_list(fn_body(src.text, sig_regex))
    ev = Evaluator(src, enums)
    cases = []
    for name, val in enum:
        v = ev.call(tree, pm.group(1), val)
        if not isinstance(v, str):
            raise Untranslatable("the value for %s is not a string" % name)
        cases.append((name, val, v))
    other = max(v for _, v in enum) + 1
    d = ev.call(tree, pm.group(1), other)
    if not isinstance(d, str):
        raise Untranslatable("the default value is not a string")
    return cases, d


# ------------------------------------------------------------------------------------------------
# canonical text of locals (as tools/gen_loader_guards.py): a local with exactly one definition is replaced by it

def definitions(body):
    cands = {}
    for m in re.finditer(r"(" + IDENT + r")\s*(?:=(?!=)\s*([^;]*?)|\{([^;{}]*)\})\s*;", body):
        name = m.group(1)
        pre = body[:m.start()].rstrip()
        if pre.endswith(".") or pre.endswith("->") or pre.endswith("::"):
            continue
        if m.start() > 0 and (body[m.start() - 1].isalnum() or body[m.start() - 1] == "_"):
            continue
        if name in ("return", "else", "try", "do", "const", "using") or re.search(r"\busing\s*$", pre):
            continue
        rhs = flat(m.group(2) if m.group(2) is not None else m.group(3))
        if rhs == "":
            continue
        cands.setdefault(name, set()).add(rhs)
    counters = set(re.findall(r"(" + IDENT + r")\s*(?:\+\+|--|\+=|-=|\*=|/=)", body)) | \
        set(re.findall(r"(?:\+\+|--)\s*(" + IDENT + r")", body))
    defs = {}
    for name, rs in cands.items():
        if len(rs) != 1 or name in counters:
            continue
        rhs = next(iter(rs))
        if re.search(r"(?<![\w.])" + re.escape(name) + r"(?!\w)", rhs):
            continue
        defs[name] = rhs
    return defs


def simple_postfix(e):
    t = e
    while True:
        t2 = re.sub(r"\([^()\[\]]*\)|\[[^()\[\]]*\]", "", t)
        if t2 == t:
            break
        t = t2
    t = t.replace("->", ".")
    t = re.sub(r"<[\w:]+>", "", t)
    return re.fullmatch(r"[\w.:]*", t) is not None


def canon(text, defs, rounds=12):
    text = flat(text)
    for _ in range(rounds):
        changed = [False]

        def sub(m):
            name = m.group(0)
            pre = text[:m.start()]
            if pre.endswith(".") or pre.endswith("->") or pre.endswith("::"):
                return name
            if name not in defs:
                return name
            changed[0] = True
            d = defs[name]
            return d if simple_postfix(d) else "(" + d + ")"
        new = re.sub(r"(?<![\w])" + IDENT + r"(?!\w)", sub, text)
        text = new
        if not changed[0]:
            return text
    raise Untranslatable("definitions of locals do not resolve")


def range_for(header):
    """`T x : coll` -> (x, coll) or None"""
    if ";" in header:
        return None
    parts = split_top(header, ":")
    # `std::string x : v` splits at every `:` of `::` too: rejoin
    m = re.fullmatch(r"\s*(.*?[\s&*])(" + IDENT + r")\s*:(?!:)\s*(.+?)\s*", header, flags=re.S)
    if not m or m.group(1).rstrip().endswith(":"):
        return None
    return m.group(2), flat(m.group(3))


def lambda_of_resource(src, pattern_part):
    """(capture list, body) of the handler registered for the resource whose pattern text contains pattern_part"""
    hits = []
    for m in re.finditer(r"\.\s*resource\s*\[\s*(__S\d+__)\s*\]\s*\[\s*(__S\d+__)\s*\]\s*=\s*\[", src.text):
        if pattern_part in src.lit(m.group(1)):
            hits.append(m)
    if len(hits) != 1:
        raise Untranslatable("%d handlers registered for %s" % (len(hits), pattern_part))
    m = hits[0]
    cap, j = balanced(src.text, m.end() - 1, "[", "]")
    j = skip_ws(src.text, j)
    _, j = balanced(src.text, j, "(", ")")
    j = skip_ws(src.text, j)
    body, _ = balanced(src.text, j, "{", "}")
    return src.lit(m.group(1)), src.lit(m.group(2)), [flat(c) for c in cap.split(",") if flat(c)], body


def lit_cond(src, cond, subject):
    """cond over `subject == "lit"`: -> ('in', [lits]) for a disjunction of equalities, ('notin', [lits]) for a conjunction of
    inequalities"""
    c = strip_parens(cond)
    for sep, op, kind in (("||", "==", "in"), ("&&", "!=", "notin")):
        parts = [strip_parens(p) for p in split_top(c, sep)]
        lits = []
        for p in parts:
            sides = split_top(p, op)
            if len(sides) != 2:
                break
            a, b = strip_parens(sides[0]), strip_parens(sides[1])
            if a == subject and src.lit(b) is not None and b.startswith("__S"):
                lits.append(src.lit(b))
            elif b == subject and src.lit(a) is not None and a.startswith("__S"):
                lits.append(src.lit(a))
            else:
                break
        else:
            return kind, lits
    raise Untranslatable("test not understood: " + cond[:80])


def coq_cond(kind_lits):
    kind, lits = kind_lits
    return "(%s %s)" % ("TextIn" if kind == "in" else "TextNotIn", coq_list([coq_string(x) for x in lits]))


def concat_expr(src, text, variables):
    """`a + b + ...` of string literals and the given variables (canonical text -> Coq name) -> Coq string expression"""
    parts = [strip_parens(p) for p in split_top(strip_parens(text), "+")]
    out = []
    for p in parts:
        m = re.fullmatch(r"std::string\((.*)\)", p)
        if m:
            p = strip_parens(m.group(1))
        if src.lit(p) is not None and p.startswith("__S"):
            out.append(coq_string(src.lit(p)))
        elif p in variables:
            out.append(variables[p])
        else:
            raise Untranslatable("piece of a response text: " + p[:60])
    return "(" + " ++ ".join(out) + ")%string" if len(out) > 1 else out[0]


def status_line_of(src, nd):
    """the text before the first CR LF of what `*serverResponse << "..." << ...` sends"""
    m = re.match(r"\*\s*" + IDENT + r"\s*<<\s*(__S\d+__)", nd[1])
    if not m:
        return None
    t = src.lit(m.group(1))
    return t.split("\r\n")[0] if "\r\n" in t else None


# ------------------------------------------------------------------------------------------------
# /updateCache

UPDATE_HAND = dict(
    key_rules='[ ((TextIn ["names"; "caches"; "cache_names"; "name"; "cache"; "cache_name"]), KA_names, true);\n    ((TextIn ["path"; "custom_path"; "custom_cache_path"]), KA_path, true) ]',
    key_sep='"="', names_sep='","',
    loop="[ " + ";\n    ".join('Block (TextIn ["%s"; "all"]) true [("%s", true)]' % nm for nm in (
        ("data_sources", "updateDataSources"), ("persons", "updatePersons"), ("od_trips", "updateOdTrips"), ("agencies", "updateAgencies"),
        ("services", "updateServices"), ("nodes", "updateNodes"), ("lines", "updateLines"), ("paths", "updatePaths"),
        ("scenarios", "updateScenarios"), ("schedules", "updateSchedules"))) + ';\n    Append true "," ]',
    flag_init="false", flag_per_name="false",
    status_refresh="SR_always", status_shared="true",
    success_test="(Nat.ltb 0%nat n)", then_pops="true", else_pops="false",
    body_then='("{""status"": ""success"", ""cache_names"": """ ++ names ++ """, ""custom_cache_path"": """ ++ path ++ """}")%string',
    body_else='"{""status"": ""error"", ""error"": ""missing or wrong cache name""}"',
    status_line='"HTTP/1.1 200 OK"')


def gen_update(src, rep):
    vals = {}

    def work():
        pat, method, caps, body = lambda_of_resource(src, "updateCache")
        defs = definitions(body)
        tree = parse_list(body)
        # the object the handler refreshes: the receiver of the update calls (a capture of the lambda)
        recv = None
        for nd in all_nodes(tree):
            if nd[0] == "stmt":
                m = re.match(r"(" + IDENT + r")\s*(?:\.|->)\s*update\w*\s*\(", nd[1])
                if m and ("&" + m.group(1) in caps or "&" in caps or m.group(1) in caps):
                    recv = m.group(1)
                    break
        if recv is None:
            raise Untranslatable("no update call on a captured object")
        call_re = re.compile(r"^" + re.escape(recv) + r"\s*(?:\.|->)\s*(" + IDENT + r")\s*\((.*)\)$", flags=re.S)
        # the loop over the given names: the range-for whose body makes those calls
        loops = [(l, i) for l in all_lists(tree) for i, nd in enumerate(l)
                 if nd[0] == "for" and any(x[0] == "stmt" and call_re.match(x[1]) for x in all_nodes(nd[2]))]
        loops = [(l, i) for l, i in loops if not any(x[0] == "for" and any(y[0] == "stmt" and call_re.match(y[1]) for y in all_nodes(x[2]))
                                                      for x in all_nodes(l[i][2]))]
        if len(loops) != 1 or loops[0][0] is not tree:
            raise Untranslatable("%d loops make the update calls (or not at the top level of the handler)" % len(loops))
        top, kloop = loops[0]
        rf = range_for(top[kloop][1])
        if not rf:
            raise Untranslatable("the loop over the names is not a range-for")
        name_var, names_vec = rf
        # --- the loop over the names
        items = []           # ('block', cond, sets, calls) / ('append', needs_flag, suffix)
        flag, accum, path_var = None, None, None
        body_nodes = without_logs(top[kloop][2])
        flag_per_name = False
        pending = []
        for nd in body_nodes:
            if nd[0] == "if" and any(x[0] == "stmt" and call_re.match(x[1]) for x in all_nodes(nd[2] + nd[3])):
                if nd[3]:
                    raise Untranslatable("a block of the name loop has an else branch")
                cond = lit_cond(src, canon(nd[1], {}), name_var)
                sets, calls = False, []
                for x in without_logs(nd[2]):
                    if x[0] != "stmt":
                        raise Untranslatable("statement in a block of the name loop: " + x[0])
                    cm = call_re.match(x[1])
                    am = re.fullmatch(r"(" + IDENT + r")\s*=\s*true", x[1])
                    if cm:
                        args = split_args(cm.group(2))
                        if len(args) != 1 or not re.fullmatch(IDENT, args[0] or ""):
                            if args == [""]:
                                calls.append((cm.group(1), None))
                                continue
                            raise Untranslatable("arguments of " + cm.group(1))
                        calls.append((cm.group(1), args[0]))
                    elif am:
                        if flag not in (None, am.group(1)):
                            raise Untranslatable("two flags are set in the name loop")
                        flag = am.group(1)
                        sets = True
                    else:
                        raise Untranslatable("statement in a block of the name loop: " + x[1][:50])
                items.append(["block", cond, sets, calls])
            elif nd[0] == "if":
                c = strip_parens(nd[1])
                neg = c.startswith("!")
                c = strip_parens(c[1:]) if neg else c
                if not re.fullmatch(IDENT, c) or nd[3] or neg:
                    raise Untranslatable("test of the name loop: " + nd[1][:60])
                pieces = []
                for x in without_logs(nd[2]):
                    m = x[0] == "stmt" and re.fullmatch(r"(" + IDENT + r")\s*\+=\s*(.+)", x[1], flags=re.S)
                    if not m:
                        raise Untranslatable("statement under the flag test")
                    if accum not in (None, m.group(1)):
                        raise Untranslatable("two strings are built under the flag test")
                    accum = m.group(1)
                    pieces.append(flat(m.group(2)))
                if len(pieces) != 2 or pieces[0] != name_var or src.lit(pieces[1]) is None:
                    raise Untranslatable("what is appended for an accepted name")
                items.append(["append", c, src.lit(pieces[1])])
            elif nd[0] == "stmt" and re.fullmatch(r"bool\s+(" + IDENT + r")\s*(=\s*false|\{\s*false\s*\})", nd[1]):
                pending.append(re.fullmatch(r"bool\s+(" + IDENT + r").*", nd[1], flags=re.S).group(1))
            elif nd[0] == "stmt" and re.fullmatch(r"(" + IDENT + r")\s*=\s*false", nd[1]):
                pending.append(re.fullmatch(r"(" + IDENT + r").*", nd[1], flags=re.S).group(1))
            else:
                raise Untranslatable("statement of the name loop: " + str(nd)[:70])
        appends = [it for it in items if it[0] == "append"]
        if len(appends) != 1:
            raise Untranslatable("%d flag tests in the name loop" % len(appends))
        if flag is None:
            flag = appends[0][1]      # no block sets it: read as such
        if appends[0][1] != flag:
            raise Untranslatable("the tested flag is not the one the blocks set")
        if pending:
            if pending != [flag] or body_nodes.index(next(n for n in body_nodes if n[0] == "if")) == 0:
                raise Untranslatable("reset of a variable in the name loop")
            flag_per_name = True
        path_args = set(a for it in items if it[0] == "block" for _, a in it[3] if a is not None)
        if len(path_args) > 1:
            raise Untranslatable("the update calls are given different arguments")
        path_var = next(iter(path_args)) if path_args else None
        # the flag's initial value
        if flag_per_name:
            flag_init = "false"
        else:
            inits = [re.fullmatch(r"bool\s+" + re.escape(flag) + r"\s*(?:=\s*(true|false)|\{\s*(true|false)\s*\})", nd[1])
                     for nd in top[:kloop] if nd[0] == "stmt"]
            inits = [m for m in inits if m]
            if len(inits) != 1:
                raise Untranslatable("declaration of the flag")
            flag_init = inits[0].group(1) or inits[0].group(2)
        loop_items = []
        for it in items:
            if it[0] == "block":
                calls = coq_list(["(%s, %s)" % (coq_string(mname), "true" if (a is not None and a == path_var) else "false") for mname, a in it[3]])
                loop_items.append("Block %s %s %s" % (coq_cond(it[1]), "true" if it[2] else "false", calls))
            else:
                loop_items.append("Append true %s" % coq_string(it[2]))
        vals["loop"] = "[ " + ";\n    ".join(loop_items) + " ]"
        vals["flag_init"] = flag_init
        vals["flag_per_name"] = "true" if flag_per_name else "false"

        # --- the loop over the parameters: the one that splits each of them at "="
        split_re = re.compile(r"^boost::split\((" + IDENT + r"),(.+),boost::is_any_of\((__S\d+__)\)\)$")
        kl = []
        for i, nd in enumerate(top[:kloop]):
            if nd[0] == "for" and range_for(nd[1]):
                pv, _ = range_for(nd[1])
                for x in nd[2]:
                    m = x[0] == "stmt" and split_re.match(flat(x[1]))
                    if m and strip_parens(m.group(2)) == pv:
                        kl.append((nd, m.group(1), src.lit(m.group(3)), x))
        if len(kl) != 1:
            raise Untranslatable("%d loops split the parameters" % len(kl))
        knode, fields, key_sep, split_stmt = kl[0]
        key_subject = fields + "[0]"
        value_subject = fields + "[1]"
        names_sep = [None]

        def actions(nodes):
            """-> (list of actions, stops)"""
            acts, stops = [], False
            nodes = without_logs(nodes)
            for x in nodes:
                if x is split_stmt:
                    continue
                if x[0] == "continue":
                    stops = True
                    break
                if x[0] == "stmt":
                    f = flat(x[1])
                    m = split_re.match(f)
                    if m and strip_parens(m.group(2)) == value_subject:
                        sep = src.lit(m.group(3))
                        if names_sep[0] not in (None, sep):
                            raise Untranslatable("two separators of the names")
                        names_sep[0] = sep
                        if m.group(1) == names_vec:
                            acts.append("KA_names")
                        else:
                            acts.append(("split", m.group(1)))
                        continue
                    m = re.fullmatch(r"(" + IDENT + r")=(.+)", f)
                    if m and strip_parens(m.group(2)) == value_subject:
                        if path_var is None or m.group(1) != path_var:
                            raise Untranslatable("the value of a parameter is stored in a variable the update calls do not receive")
                        acts.append("KA_path")
                        continue
                    raise Untranslatable("statement of the parameter loop: " + x[1][:60])
                if x[0] == "for" and range_for(x[1]):
                    ev, coll = range_for(x[1])
                    inner = without_logs(x[2])
                    ok = len(inner) == 1 and inner[0][0] == "stmt" and flat(inner[0][1]) == "%s.push_back(%s)" % (names_vec, ev)
                    if ok and ("split", coll) in acts:
                        acts[acts.index(("split", coll))] = "KA_names"
                        continue
                raise Untranslatable("statement of the parameter loop: " + str(x)[:60])
            if any(isinstance(a, tuple) for a in acts):
                raise Untranslatable("a split whose pieces are not pushed onto the names")
            return acts, stops

        rules = []
        plain = []
        for nd in knode[2]:
            if nd[0] == "if":
                cond = lit_cond(src, nd[1], key_subject)
                acts, stops = actions(nd[2])
                for a in acts:
                    rules.append((cond, a, stops and a == acts[-1]))
                if not acts and stops:
                    raise Untranslatable("a key test that only continues")
                if nd[3]:
                    eacts, estops = actions(nd[3])
                    neg = ("notin" if cond[0] == "in" else "in", cond[1])
                    for a in eacts:
                        rules.append((neg, a, estops and a == eacts[-1]))
            else:
                plain.append(nd)
        pacts, _ = actions(plain)
        for a in pacts:
            rules.append((("notin", []), a, False))
        vals["key_rules"] = "[ " + ";\n    ".join("(%s, %s, %s)" % (coq_cond(c), a, "true" if s else "false") for c, a, s in rules) + " ]"
        vals["key_sep"] = coq_string(key_sep)
        if names_sep[0] is None:
            raise Untranslatable("the names are not split")
        vals["names_sep"] = coq_string(names_sep[0])

        # --- after the loop
        after = without_logs(top[kloop + 1:])
        resp_if = [nd for nd in after if nd[0] == "if"]
        if len(resp_if) != 1 or accum is None:
            raise Untranslatable("%d tests after the name loop" % len(resp_if))
        rif = resp_if[0]
        c = strip_parens(rif[1])
        # the test, as a function of the length of the string of accepted names
        test = None
        for pat_, coq in ((r"%s\.(?:size|length)\(\)>0", "(Nat.ltb 0%nat n)"), (r"0<%s\.(?:size|length)\(\)", "(Nat.ltb 0%nat n)"),
                          (r"%s\.(?:size|length)\(\)!=0", "(negb (Nat.eqb n 0%nat))"), (r"!%s\.empty\(\)", "(negb (Nat.eqb n 0%nat))"),
                          (r"%s\.(?:size|length)\(\)>=1", "(Nat.leb 1%nat n)"), (r"%s\.(?:size|length)\(\)==0", "(Nat.eqb n 0%nat)"),
                          (r"%s\.empty\(\)", "(Nat.eqb n 0%nat)"), (r"%s\.(?:size|length)\(\)>1", "(Nat.ltb 1%nat n)")):
            if re.fullmatch(pat_ % re.escape(accum), c):
                test = coq
                break
        if test is None:
            raise Untranslatable("test after the name loop: " + c[:60])
        vals["success_test"] = test
        variables = {accum: "names"}
        if path_var:
            variables[path_var] = "path"
        resp_var = [None]

        def branch(nodes):
            pops, text = False, None
            for x in without_logs(nodes):
                if x[0] != "stmt":
                    raise Untranslatable("statement in a branch of the response test")
                f = flat(x[1])
                if f == accum + ".pop_back()":
                    if text is not None:
                        raise Untranslatable("pop_back after the response is built")
                    pops = True
                    continue
                m = re.fullmatch(r"(" + IDENT + r")=(.+)", f)
                if m and text is None:
                    if resp_var[0] not in (None, m.group(1)):
                        raise Untranslatable("the branches fill different variables")
                    resp_var[0] = m.group(1)
                    text = concat_expr(src, m.group(2), variables)
                    continue
                raise Untranslatable("statement in a branch of the response test: " + f[:60])
            if text is None:
                raise Untranslatable("a branch of the response test builds no response")
            return pops, text
        tp, tt = branch(rif[2])
        ep, et = branch(rif[3])
        vals["then_pops"], vals["body_then"] = ("true" if tp else "false"), tt
        vals["else_pops"], vals["body_else"] = ("true" if ep else "false"), et
        # the status recomputed from the collections
        status_re = re.compile(r"^(" + IDENT + r")\s*=\s*" + re.escape(recv) + r"\s*(?:\.|->)\s*getDataStatus\s*\(\s*\)$")
        where = []
        for nd in after:
            if nd[0] == "stmt" and status_re.match(nd[1]):
                where.append(("SR_always", status_re.match(nd[1]).group(1)))
        for x in rif[2]:
            if x[0] == "stmt" and status_re.match(x[1]):
                where.append(("SR_then", status_re.match(x[1]).group(1)))
        for x in rif[3]:
            if x[0] == "stmt" and status_re.match(x[1]):
                where.append(("SR_else", status_re.match(x[1]).group(1)))
        for nd in all_nodes(tree):
            if nd[0] == "stmt" and status_re.match(nd[1]) and not any(nd is x for x in after + rif[2] + rif[3]):
                raise Untranslatable("the status is recomputed somewhere else")
        kinds = sorted(set(w for w, _ in where))
        if not kinds:
            vals["status_refresh"] = "SR_never"
        elif "SR_always" in kinds or kinds == ["SR_else", "SR_then"]:
            vals["status_refresh"] = "SR_always"
        else:
            vals["status_refresh"] = kinds[0]
        # ... into the variable the three /v2 handlers read, shared by reference
        svars = set(v for _, v in where)
        shared = True
        if len(svars) > 1:
            raise Untranslatable("two status variables")
        if svars:
            sv = next(iter(svars))
            shared = ("&" + sv in caps or "&" in caps)
            for part in ("/v2/route", "/v2/summary", "/v2/accessibility"):
                _, _, caps2, body2 = lambda_of_resource(src, part)
                reads = re.search(r"getFastErrorResponse\s*\(\s*" + re.escape(sv) + r"\s*\)", body2) is not None
                shared = shared and reads and ("&" + sv in caps2 or "&" in caps2)
        vals["status_shared"] = "true" if shared else "false"
        # what is sent
        lines = [status_line_of(src, nd) for nd in after if nd[0] == "stmt" and nd[1].lstrip().startswith("*")]
        lines = [l for l in lines if l is not None]
        if len(lines) != 1:
            raise Untranslatable("%d responses are sent" % len(lines))
        vals["status_line"] = coq_string(lines[0])
        missing = [k for k in UPDATE_HAND if k not in vals]
        if missing:
            raise Untranslatable("not produced: " + ", ".join(missing))

    origin = "source"
    try:
        work()
    except Exception as e:
        rep["fallback"].append("updateCache: %s%s" % ("" if isinstance(e, Untranslatable) else type(e).__name__ + ": ", e))
        vals = dict(UPDATE_HAND)
        origin = "fallback"
    for k in UPDATE_HAND:
        rep["guards"]["update_" + k] = origin
    o = "   (* %s *)" % origin
    return [
        "(* ---- /updateCache ---- *)",
        "Definition gen_update_key_value_separator : string := %s.%s" % (vals["key_sep"], o),
        "Definition gen_update_key_rules : list (text_cond * key_action * bool) :=\n  %s.%s" % (vals["key_rules"], o),
        "Definition gen_update_names_separator : string := %s.%s" % (vals["names_sep"], o),
        "Definition gen_update_flag_init : bool := %s.%s" % (vals["flag_init"], o),
        "Definition gen_update_flag_per_name : bool := %s.%s" % (vals["flag_per_name"], o),
        "Definition gen_update_loop : list loop_item :=\n  %s.%s" % (vals["loop"], o),
        "Definition gen_update_status_refresh : status_refresh := %s.%s" % (vals["status_refresh"], o),
        "Definition gen_update_status_shared_by_reference : bool := %s.%s" % (vals["status_shared"], o),
        "Definition gen_update_success_test (n : nat) : bool := %s.%s" % (vals["success_test"], o),
        "Definition gen_update_then_pops_last : bool := %s.%s" % (vals["then_pops"], o),
        "Definition gen_update_else_pops_last : bool := %s.%s" % (vals["else_pops"], o),
        "Definition gen_update_body_then (names path : string) : string :=\n  %s.%s" % (vals["body_then"], o),
        "Definition gen_update_body_else (names path : string) : string :=\n  %s.%s" % (vals["body_else"], o),
        "Definition gen_update_status_line : string := %s.%s" % (vals["status_line"], o),
    ]


# ------------------------------------------------------------------------------------------------
# the functions from an enumerator to a text

DS_HAND = [("READY", 0), ("DATA_READ_ERROR", 1), ("NO_AGENCIES", 2), ("NO_LINES", 3), ("NO_PATHS", 4), ("NO_SERVICES", 5),
           ("NO_SCENARIOS", 6), ("NO_SCHEDULES", 7), ("NO_NODES", 8)]
PE_HAND = [("MISSING_SCENARIO", 0), ("MISSING_ORIGIN", 1), ("MISSING_DESTINATION", 2), ("MISSING_TIME_OF_TRIP", 3), ("MISSING_PLACE", 4),
           ("EMPTY_SCENARIO", 5), ("INVALID_ORIGIN", 6), ("INVALID_DESTINATION", 7), ("INVALID_PLACE", 8), ("INVALID_NUMERICAL_DATA", 9)]
DS_CODE = {"DATA_READ_ERROR": "DATA_ERROR", "NO_AGENCIES": "MISSING_DATA_AGENCIES", "NO_LINES": "MISSING_DATA_LINES", "NO_PATHS": "MISSING_DATA_PATHS",
           "NO_SERVICES": "MISSING_DATA_SERVICES", "NO_SCENARIOS": "MISSING_DATA_SCENARIOS", "NO_SCHEDULES": "MISSING_DATA_SCHEDULES",
           "NO_NODES": "MISSING_DATA_NODES"}
DS_WHAT = {"NO_AGENCIES": "agencies", "NO_LINES": "lines", "NO_PATHS": "paths", "NO_SERVICES": "services", "NO_SCENARIOS": "scenarios",
           "NO_SCHEDULES": "schedules", "NO_NODES": "nodes"}
FAST_HAND = ([(n, v, "" if n == "READY" else '{"status": "data_error", "errorCode": "%s"}' % DS_CODE[n]) for n, v in DS_HAND], "PARAM_ERROR_UNKNOWN")
INIT_HAND = ([(n, v, "" if n == "READY" else ('{"status": "data_error"}' if n == "DATA_READ_ERROR" else
              '{"status": "error", "error": {"error": "No %s found", "code": "%s"}}' % (DS_WHAT[n], DS_CODE[n]))) for n, v in DS_HAND], "PARAM_ERROR_UNKNOWN")
PE_CODE = {"MISSING_SCENARIO": "MISSING_PARAM_SCENARIO", "MISSING_ORIGIN": "MISSING_PARAM_ORIGIN", "MISSING_DESTINATION": "MISSING_PARAM_DESTINATION",
           "MISSING_TIME_OF_TRIP": "MISSING_PARAM_TIME_OF_TRIP", "MISSING_PLACE": "MISSING_PARAM_PLACE"}
CODE_HAND = ([(n, v, PE_CODE.get(n, n)) for n, v in PE_HAND], "PARAM_ERROR_UNKNOWN")


def gen_enums(rep):
    """-> (DataStatus enumerators, ParameterException::Type enumerators, Coq lines)"""
    out = []
    res = []
    for key, rel, regex, hand, prefix in (("data_status_enum", DATA_HPP, r"enum\s+class\s+DataStatus", DS_HAND, "DS"),
                                          ("parameter_exception_enum", PARAMS_HPP, r"class\s+ParameterException\b[^}]*?enum\s+class\s+Type", PE_HAND, "PE")):
        origin = "source"
        try:
            enum = read_enum(read(rel).text, regex)
            if sorted(n for n, _ in enum) != sorted(n for n, _ in hand):
                raise Untranslatable("enumerators: " + " ".join(n for n, _ in enum))
        except Exception as e:
            rep["fallback"].append("%s: %s" % (key, e))
            enum, origin = list(hand), "fallback"
        rep["guards"][key] = origin
        out += ["Definition gen_%s_%s : nat := %d%%nat.   (* %s *)" % (prefix, n, v, origin) for n, v in enum]
        res.append(enum)
    return res[0], res[1], out


def gen_table(src, rep, name, sig, enum, enums, hand, prefix):
    origin = "source"
    try:
        cases, default = function_table(src, sig, enum, enums)
        for _, _, t in cases:
            coq_string(t)
        coq_string(default)
    except Exception as e:
        rep["fallback"].append("%s: %s%s" % (name, "" if isinstance(e, Untranslatable) else type(e).__name__ + ": ", e))
        by_name = {n: t for n, _, t in hand[0]}
        cases, default, origin = [(n, v, by_name[n]) for n, v in enum], hand[1], "fallback"
    rep["guards"][name] = origin
    return [
        "Definition gen_%s_cases : list (nat * string) :=\n  [ %s ].   (* %s *)" % (
            name, ";\n    ".join("(gen_%s_%s, %s)" % (prefix, n, coq_string(t)) for n, _, t in cases), origin),
        "Definition gen_%s_default : string := %s.   (* %s *)" % (name, coq_string(default), origin),
        "Definition gen_%s (v : nat) : string := lookup_text gen_%s_cases gen_%s_default v." % (name, name, name),
    ]


# ------------------------------------------------------------------------------------------------
# transit_data.cpp: loadAllData and the update functions

ERRNO = {"ENOENT": 2, "EINVAL": 22, "EBADMSG": 74}       # Linux asm-generic/errno{,-base}.h


def coq_of_int_test(ast, var):
    """boolean / integer expression over the one int variable `var` (and errno names) -> (Coq text, 'bool' | 'Z')"""
    k = ast[0]
    if k == "int":
        return str(ast[1]), "Z"
    if k == "id":
        if ast[1] == var:
            return "ret", "Z"
        if ast[1] in ERRNO:
            return str(ERRNO[ast[1]]), "Z"
        raise Untranslatable("name %s in a return-code test" % ast[1])
    if k == "un":
        a, ty = coq_of_int_test(ast[2], var)
        if ast[1] == "-" and ty == "Z":
            return "(- %s)" % a, "Z"
        if ast[1] == "!" and ty == "bool":
            return "(negb %s)" % a, "bool"
    if k == "bin":
        a, ta = coq_of_int_test(ast[2], var)
        b, tb = coq_of_int_test(ast[3], var)
        op = ast[1]
        if op in ("&&", "||") and ta == tb == "bool":
            return "(%s %s %s)" % (a, op, b), "bool"
        if ta == tb == "Z":
            if op in ("<", "<=", ">", ">="):
                return "(%s %s? %s)" % (a, op, b), "bool"
            if op == "==":
                return "(%s =? %s)" % (a, b), "bool"
            if op == "!=":
                return "(negb (%s =? %s))" % (a, b), "bool"
            if op in ("+", "-"):
                return "(%s %s %s)" % (a, op, b), "Z"
    raise Untranslatable("return-code test not understood")


LOAD_ALL_HAND = [("updateNodes", "((ret <? 0) && (negb (ret =? (- 2))))"), ("updateDataSources", "((ret <? 0) && (negb (ret =? (- 2))))"),
                 ("updatePersons", "(ret <? 0)"), ("updateOdTrips", "(ret <? 0)")] + \
                [(m, "((ret <? 0) && (negb (ret =? (- 2))))") for m in ("updateAgencies", "updateServices", "updateLines", "updatePaths",
                                                                          "updateScenarios", "updateSchedules")]


def gen_load_all(src, rep, ds_names):
    origin = "source"
    try:
        tree = without_logs(parse_list(fn_body(src.text, r"\bTransitData\s*::\s*loadAllData\s*\(")))
        steps, final = [], None
        i = 0
        while i < len(tree):
            nd = tree[i]
            i += 1
            if nd[0] == "return":
                r = flat(nd[1])
                if re.fullmatch(r"(this->)?getDataStatus\(\)", r):
                    final = "LF_data_status"
                else:
                    m = re.fullmatch(r"DataStatus::(" + IDENT + r")", r)
                    if not m or m.group(1) not in ds_names:
                        raise Untranslatable("final value of loadAllData: " + r)
                    final = "(LF_const gen_DS_%s)" % m.group(1)
                if i != len(tree):
                    raise Untranslatable("statements after the final return of loadAllData")
                break
            if nd[0] != "stmt":
                raise Untranslatable("unexpected `%s` in loadAllData" % nd[0])
            m = re.fullmatch(r"(?:int\s+)?(?:(" + IDENT + r")\s*=\s*)?(?:this->)?(update\w+)\s*\((.*)\)", nd[1], flags=re.S)
            if not m:
                if re.fullmatch(r"int\s+" + IDENT + r"\s*(=\s*0|\{\s*0?\s*\})?", nd[1]) or re.fullmatch(r"modes\s*=\s*dataFetcher\s*\.\s*getModes\s*\(\s*\)", nd[1]):
                    continue
                raise Untranslatable("statement of loadAllData: " + nd[1][:60])
            var, method = m.group(1), m.group(2)
            test, status = "false", "READY"
            if i < len(tree) and tree[i][0] == "if":
                g = tree[i]
                i += 1
                th = without_logs(g[2])
                if g[3] or len(th) != 1 or th[0][0] != "return" or var is None:
                    raise Untranslatable("the test after %s does not just return" % method)
                sm = re.fullmatch(r"DataStatus::(" + IDENT + r")", flat(th[0][1]))
                if not sm or sm.group(1) not in ds_names:
                    raise Untranslatable("value returned after " + method)
                test, ty = coq_of_int_test(parse_expr(g[1]), var)
                if ty != "bool":
                    raise Untranslatable("test after " + method)
                status = sm.group(1)
            steps.append((method, test, status))
        if final is None:
            raise Untranslatable("loadAllData can fall off its end")
    except Exception as e:
        rep["fallback"].append("loadAllData: %s%s" % ("" if isinstance(e, Untranslatable) else type(e).__name__ + ": ", e))
        steps, final, origin = [(m, t, "DATA_READ_ERROR") for m, t in LOAD_ALL_HAND], "LF_data_status", "fallback"
    rep["guards"]["load_all_steps"] = origin
    return ["(* ---- TransitData::loadAllData ---- *)",
            "Definition gen_load_all_steps : list (string * (Z -> bool) * nat) :=\n  [ %s ].   (* %s *)" % (
                ";\n    ".join("(%s, (fun ret : Z => %s), gen_DS_%s)" % (coq_string(m), t, s) for m, t, s in steps), origin),
            "Definition gen_load_all_final : load_final := %s.   (* %s *)" % (final, origin)]


UPDATE_FNS_HAND = [("updateAgencies", "getAgencies", "agencies", False, True, [], False, False), ("updateDataSources", "getDataSources", "dataSources", False, True, [], False, False),
                   ("updateLines", "getLines", "lines", False, True, [], False, False), ("updateNodes", "getNodes", "nodes", False, True, [], False, False),
                   ("updateOdTrips", "getOdTrips", "odTrips", False, False, [], False, False), ("updatePaths", "getPaths", "paths", False, True, [], False, False),
                   ("updatePersons", "getPersons", "persons", False, True, [], False, False), ("updateScenarios", "getScenarios", "scenarios", True, True, [], False, False),
                   ("updateSchedules", "getSchedules", "trips", True, True, ["connections"], True, True), ("updateServices", "getServices", "services", False, True, [], False, False)]


def fetcher_clears(method):
    """the positions of the parameters CacheFetcher::<method> empties before it reads anything (top-level `p.clear()` before
    the first loop / try / test of its body)"""
    for fn in sorted(os.listdir(os.path.join(REPO, "src"))):
        if not fn.endswith("_cache_fetcher.cpp"):
            continue
        t = read(os.path.join("src", fn)).text
        m = re.search(r"\bCacheFetcher\s*::\s*" + re.escape(method) + r"\s*\(", t)
        if not m:
            continue
        params, _ = balanced(t, m.end() - 1, "(", ")")
        names = []
        for p in split_params(params):
            pm = re.search(r"(" + IDENT + r")\s*$", p.strip())
            names.append(pm.group(1) if pm else None)
        tree = parse_list(fn_body(t, r"\bCacheFetcher\s*::\s*" + re.escape(method) + r"\s*\("))
        out = []
        for nd in tree:
            if nd[0] != "stmt":
                break
            cm = re.fullmatch(r"(" + IDENT + r")\.clear\(\)", flat(nd[1]))
            if cm and cm.group(1) in names:
                out.append(names.index(cm.group(1)))
        return out
    raise Untranslatable("definition of CacheFetcher::%s not found" % method)


def gen_update_fns(src, rep):
    origin = "source"
    try:
        fns = []
        for m in re.finditer(r"\bint\s+TransitData\s*::\s*(update\w+)\s*\(", src.text):
            method = m.group(1)
            tree = without_logs(parse_list(fn_body(src.text, r"\bint\s+TransitData\s*::\s*" + method + r"\s*\(")))
            fetch, clears_cache, cleared, rebuilds, guarded = None, False, [], False, False
            ret_var, guard_seen = None, False
            for nd in tree:
                text = nd[1] if nd[0] in ("stmt", "return") else None
                if nd[0] == "if":
                    th = without_logs(nd[2])
                    c = strip_parens(nd[1])
                    if fetch and ret_var and not nd[3] and len(th) == 1 and th[0][0] == "return" and flat(th[0][1]) == ret_var and \
                            c in (ret_var + "<0", "0>" + ret_var):
                        guard_seen = True
                        continue
                    raise Untranslatable("test in %s: %s" % (method, nd[1][:50]))
                if text is None:
                    raise Untranslatable("unexpected `%s` in %s" % (nd[0], method))
                f = flat(text)
                if f == "scenarioConnectionCache->clear()":
                    if fetch:
                        raise Untranslatable("%s clears the connection cache after the fetch" % method)
                    clears_cache = True
                    continue
                fm = re.search(r"\bdataFetcher\s*\.\s*(get\w+)\s*\(", text)
                if fm:
                    if fetch:
                        raise Untranslatable("%s fetches twice" % method)
                    args, _ = balanced(text, fm.end() - 1, "(", ")")
                    a = split_args(args)
                    fetch = (fm.group(1), a[0], a)
                    rest = flat(text[:fm.start()])
                    dm = re.fullmatch(r"(?:int)?(" + IDENT + r")=", rest)
                    if nd[0] == "stmt" and dm:
                        ret_var = dm.group(1)
                    elif not (nd[0] == "return" and rest == ""):
                        raise Untranslatable("use of the fetcher's result in " + method)
                    continue
                if re.fullmatch(r"(this->)?generateForwardAndReverseConnections\(\)", f):
                    if not fetch:
                        raise Untranslatable("%s rebuilds the connection lists before the fetch" % method)
                    rebuilds, guarded = True, guard_seen
                    continue
                cm = re.fullmatch(r"(" + IDENT + r")\.clear\(\)", f)
                if cm and not fetch:
                    cleared.append(cm.group(1))
                    continue
                if nd[0] == "return" and ret_var and f == ret_var:
                    continue
                if re.fullmatch(IDENT + r"\.(shrink_to_fit\(\)|reserve\(.*\))", f):      # storage only
                    continue
                raise Untranslatable("statement of %s: %s" % (method, f[:60]))
            if not fetch:
                raise Untranslatable("%s calls no fetcher" % method)
            pos = fetcher_clears(fetch[0])
            emptied = set(cleared) | set(fetch[2][i] for i in pos if i < len(fetch[2]))
            fns.append((method, fetch[0], fetch[1], clears_cache, fetch[1] in emptied, sorted(emptied - {fetch[1]}), rebuilds, guarded))
        if not fns:
            raise Untranslatable("no update function found")
        fns.sort()
    except Exception as e:
        rep["fallback"].append("update functions: %s%s" % ("" if isinstance(e, Untranslatable) else type(e).__name__ + ": ", e))
        fns, origin = list(UPDATE_FNS_HAND), "fallback"
    rep["guards"]["update_fns"] = origin
    b = lambda x: "true" if x else "false"
    return ["(* ---- TransitData::updateX, sorted by name ---- *)",
            "Definition gen_update_fns : list update_fn :=\n  [ %s ].   (* %s *)" % (";\n    ".join(
                "{| uf_method := %s; uf_fetcher := %s; uf_target := %s; uf_clears_cache := %s; uf_target_cleared := %s; uf_also_cleared := %s; uf_rebuilds := %s; uf_rebuild_needs_ok := %s |}" % (
                    coq_string(m), coq_string(f), coq_string(t), b(c), b(tc), coq_list([coq_string(x) for x in ac]), b(r), b(g)) for m, f, t, c, tc, ac, r, g in fns), origin)]


def gen_main_status(src, rep):
    """main(): the status the endpoints start from is recomputed from the collections (the value returned by loadAllData in the
    constructor is only logged)"""
    origin, val = "source", None
    try:
        body = fn_body(src.text, r"\bint\s+main\s*\(")
        m = re.findall(r"\bDataStatus\s+(" + IDENT + r")\s*(?:=|\{)\s*(" + IDENT + r")\s*\.\s*getDataStatus\s*\(\s*\)", body)
        other = re.findall(r"\bDataStatus\s+(" + IDENT + r")\s*(?:=|\{)", body)
        if len(other) != 1:
            raise Untranslatable("%d DataStatus variables in main" % len(other))
        val = "true" if len(m) == 1 else "false"
    except Exception as e:
        rep["fallback"].append("main status: %s" % e)
        origin, val = "fallback", "true"
    rep["guards"]["main_status_from_collections"] = origin
    return ["Definition gen_main_status_from_collections : bool := %s.   (* %s *)" % (val, origin)]


# ------------------------------------------------------------------------------------------------
# the three /v2 handlers

def v2_hand(factory, alt, single, renderer):
    q = "{\"\"status\"\": \"\"query_error\"\", \"\"errorCode\"\": \"\""
    return dict(
        fast_path="true", fast_status='"HTTP/1.1 200 OK"', factory='"%s"' % factory,
        alt=('(Some ("%s", "%s::resultToJsonString"))' % (alt, renderer)) if alt else "None",
        single='("%s", "%s::resultToJsonString")' % (single, renderer), null_guard="true",
        inner_catch='[ ("NoRoutingFoundException", "%s::noRoutingFoundResponse") ]' % renderer,
        ok_status='"HTTP/1.1 200 OK"',
        outer_catch='[ ("ParameterException", (fun code : string => ("%s" ++ code ++ """}")%%string), "HTTP/1.1 400 OK");\n      ("...", (fun code : string => "%sPARAM_ERROR_UNKNOWN""}"), "HTTP/1.1 400 OK") ]' % (q, q))


V2_HAND = {"route": v2_hand("RouteParameters::createRouteODParameter", "alternativesRouting", "calculateSingle", "ResultToV2Response"),
           "summary": v2_hand("RouteParameters::createRouteODParameter", "alternativesRouting", "calculateSingle", "ResultToV2SummaryResponse"),
           "accessibility": v2_hand("AccessibilityParameters::createAccessibilityParameter", None, "calculateAllNodes", "ResultToV2AccessibilityResponse")}
V2_FIELDS = ["fast_path", "fast_status", "factory", "alt", "single", "null_guard", "inner_catch", "ok_status", "outer_catch"]


def exc_type(decl):
    d = re.sub(r"\bconst\b", "", decl)
    if flat(d) == "...":
        return "..."
    m = re.match(r"\s*((?:" + IDENT + r"\s*::\s*)*" + IDENT + r")", d)
    if not m:
        raise Untranslatable("catch declaration " + decl)
    return flat(m.group(1)).split("::")[-1], (re.search(r"[&\s](" + IDENT + r")\s*$", d) or [None, None])[1]


def gen_v2_one(src, ep):
    _, _, caps, body = lambda_of_resource(src, "/v2/" + ep)
    defs = definitions(body)
    tree = without_logs(parse_list(body))
    vals = {}
    # fast path
    resp = None
    for nd in tree:
        m = nd[0] == "stmt" and re.fullmatch(r"std::string\s+(" + IDENT + r")\s*(?:=\s*|\{\s*)getFastErrorResponse\s*\(\s*" + IDENT + r"\s*\)\s*\}?", nd[1])
        if m:
            resp = m.group(1)
    fast = [nd for nd in tree if nd[0] == "if"]
    outer = [nd for nd in tree if nd[0] == "try"]
    if len(outer) != 1:
        raise Untranslatable("%d try blocks at the top of the handler" % len(outer))
    if resp is None or not fast:
        vals["fast_path"], vals["fast_status"] = "false", '""'
        if fast:
            raise Untranslatable("a test at the top of the handler that is not the fast path")
    else:
        if len(fast) != 1 or tree.index(fast[0]) > tree.index(outer[0]):
            raise Untranslatable("tests at the top of the handler")
        f = fast[0]
        c = strip_parens(f[1])
        if c not in ("!%s.empty()" % resp, "%s.size()>0" % resp, "%s.length()>0" % resp, '%s!=""' % resp) or f[3]:
            raise Untranslatable("fast-path test: " + c)
        th = without_logs(f[2])
        lines = [status_line_of(src, x) for x in th if x[0] == "stmt"]
        if len(th) != 2 or lines[0] is None or th[1] != ("return", ""):
            raise Untranslatable("fast-path branch")
        if not re.search(r"<<\s*" + re.escape(resp) + r"\s*$", th[0][1]):
            raise Untranslatable("the fast path does not send the data-error text")
        vals["fast_path"], vals["fast_status"] = "true", coq_string(lines[0])
    # calculator object
    calc = None
    for nd in tree:
        m = nd[0] == "stmt" and re.fullmatch(r"Calculator\s+(" + IDENT + r")\s*\(.*\)", nd[1], flags=re.S)
        if m:
            calc = m.group(1)
    if calc is None:
        raise Untranslatable("no Calculator is built")
    ob = without_logs(outer[0][1])
    fact = [re.fullmatch(r"[\w:]+\s+(" + IDENT + r")\s*=\s*((?:" + IDENT + r"\s*::\s*)+" + IDENT + r")\s*\(.*\)", nd[1], flags=re.S) for nd in ob if nd[0] == "stmt"]
    fact = [m for m in fact if m]
    if len(fact) != 1:
        raise Untranslatable("%d factory calls" % len(fact))
    qvar = fact[0].group(1)
    vals["factory"] = coq_string(flat(fact[0].group(2)))
    inner = [nd for nd in ob if nd[0] == "try"]
    if len(inner) != 1:
        raise Untranslatable("%d inner try blocks" % len(inner))

    def calc_and_render(nodes):
        """-> (calculator method, renderer, result tested against nullptr before rendering)"""
        method, renderer, guard = None, None, False
        result_var = None
        for x in all_nodes(nodes):
            if x[0] in ("stmt",):
                m = re.search(r"(" + IDENT + r")\s*=\s*" + re.escape(calc) + r"\s*\.\s*(" + IDENT + r")\s*\(\s*" + re.escape(qvar) + r"\s*\)\s*$", x[1])
                if m:
                    if method:
                        raise Untranslatable("two calculations in one branch")
                    result_var, method = m.group(1), m.group(2)
                m = re.fullmatch(re.escape(resp or "response") + r"\s*=\s*((?:" + IDENT + r"\s*::\s*)+" + IDENT + r")\s*\((.*)\)\s*\.\s*dump\s*\(\s*\d*\s*\)", x[1], flags=re.S)
                if m:
                    if renderer:
                        raise Untranslatable("two renderings in one branch")
                    renderer = flat(m.group(1))
                    a = split_args(m.group(2))
                    if result_var is None or not re.fullmatch(r"\*?" + re.escape(result_var) + r"(\.get\(\))?", a[0]) or a[1:] != [qvar]:
                        raise Untranslatable("arguments of the renderer")
            if x[0] == "if" and result_var and strip_parens(x[1]) in (result_var + ".get()!=nullptr", result_var + "!=nullptr", result_var):
                guard = True
        if not method or not renderer:
            raise Untranslatable("calculation / rendering not found in a branch")
        return method, renderer, guard
    ib = without_logs(inner[0][1])
    alt_if = [nd for nd in ib if nd[0] == "if" and strip_parens(nd[1]) == qvar + ".isWithAlternatives()"]
    if alt_if:
        if len(ib) != 1:
            raise Untranslatable("statements next to the alternatives test")
        am, ar, _ = calc_and_render(alt_if[0][2])
        sm, sr, sg = calc_and_render(alt_if[0][3])
        vals["alt"] = "(Some (%s, %s))" % (coq_string(am), coq_string(ar))
    else:
        sm, sr, sg = calc_and_render(ib)
        vals["alt"] = "None"
    vals["single"] = "(%s, %s)" % (coq_string(sm), coq_string(sr))
    vals["null_guard"] = "true" if sg else "false"
    ic = []
    for decl, h in inner[0][2]:
        ty, var = exc_type(decl)
        hb = without_logs(h)
        m = len(hb) == 1 and hb[0][0] == "stmt" and re.fullmatch(
            re.escape(resp or "response") + r"\s*=\s*((?:" + IDENT + r"\s*::\s*)+" + IDENT + r")\s*\((.*)\)\s*\.\s*dump\s*\(\s*\d*\s*\)", hb[0][1], flags=re.S)
        if not m or split_args(m.group(2)) != [qvar, "%s.getReason()" % var]:
            raise Untranslatable("handler of " + ty)
        ic.append("(%s, %s)" % (coq_string(ty), coq_string(flat(m.group(1)))))
    vals["inner_catch"] = "[ " + "; ".join(ic) + " ]"
    sends = [status_line_of(src, nd) for nd in ob if nd[0] == "stmt" and nd[1].lstrip().startswith("*")]
    if len(sends) != 1 or sends[0] is None or ob.index(inner[0]) > [i for i, nd in enumerate(ob) if nd[0] == "stmt" and nd[1].lstrip().startswith("*")][0]:
        raise Untranslatable("what is sent after the calculation")
    vals["ok_status"] = coq_string(sends[0])
    oc = []
    for decl, h in outer[0][2]:
        t = exc_type(decl)
        ty, var = (t, None) if t == "..." else t
        hb = [x for x in without_logs(h) if not (x[0] == "try") and not (x[0] == "stmt" and re.match(r"std::exception_ptr\b", x[1]))]
        hdefs = {}
        texts, lines = [], []
        for x in hb:
            if x[0] != "stmt":
                raise Untranslatable("statement in the handler of " + ty)
            dm = re.fullmatch(r"(?:auto|std::string)\s+(" + IDENT + r")\s*=\s*(.+)", x[1], flags=re.S)
            if dm:
                hdefs[dm.group(1)] = flat(dm.group(2))
                continue
            am = re.fullmatch(re.escape(resp or "response") + r"\s*=\s*(.+)", x[1], flags=re.S)
            if am:
                variables = {k: "code" for k, v in hdefs.items() if var and v == "getResponseCode(%s.getType())" % var}
                if var:
                    variables["getResponseCode(%s.getType())" % var] = "code"
                texts.append(concat_expr(src, am.group(1), variables))
                continue
            l = status_line_of(src, x)
            if l is not None:
                lines.append(l)
                continue
            raise Untranslatable("statement in the handler of %s: %s" % (ty, x[1][:50]))
        if len(texts) != 1 or len(lines) != 1:
            raise Untranslatable("handler of " + ty)
        oc.append("(%s, (fun code : string => %s), %s)" % (coq_string(ty), texts[0], coq_string(lines[0])))
    vals["outer_catch"] = "[ " + ";\n      ".join(oc) + " ]"
    return vals


def gen_v2(src, rep):
    out = ["(* ---- the /v2 handlers ---- *)"]
    for ep in ("route", "summary", "accessibility"):
        origin = "source"
        try:
            vals = gen_v2_one(src, ep)
            missing = [k for k in V2_FIELDS if k not in vals]
            if missing:
                raise Untranslatable("not produced: " + ", ".join(missing))
        except Exception as e:
            rep["fallback"].append("/v2/%s: %s%s" % (ep, "" if isinstance(e, Untranslatable) else type(e).__name__ + ": ", e))
            vals, origin = dict(V2_HAND[ep]), "fallback"
        rep["guards"]["v2_" + ep] = origin
        out.append("Definition gen_v2_%s : v2_handler :=\n  {| h_fast_path := %s; h_fast_status := %s; h_factory := %s;\n     h_alt := %s;\n     h_single := %s; h_null_guard := %s;\n"
                   "     h_inner_catch := %s; h_ok_status := %s;\n     h_outer_catch :=\n    %s |}.   (* %s *)" % (
                       ep, vals["fast_path"], vals["fast_status"], vals["factory"], vals["alt"], vals["single"], vals["null_guard"],
                       vals["inner_catch"], vals["ok_status"], vals["outer_catch"], origin))
    return out


# ------------------------------------------------------------------------------------------------

HEADER = """(* GENERATED by tools/gen_handler_guards.py from /repo's transit_routing_http_server.cpp, transit_data.cpp / transit_data.hpp,
   parameters.hpp, *_cache_fetcher.cpp - do not edit. *)
From Coq Require Import ZArith Bool List String.
Import ListNotations.
Local Open Scope string_scope.
Local Open Scope list_scope.
Local Open Scope Z_scope.
Local Open Scope bool_scope.

(* a test on a text: it is one of / none of the listed literals *)
Inductive text_cond := TextIn (l : list string) | TextNotIn (l : list string).
(* what the /updateCache handler does with the value of a parameter: its comma-separated pieces become cache names / it
   becomes the custom cache path *)
Inductive key_action := KA_names | KA_path.
(* the body of the loop over the cache names, in source order: `if (test on the name) { [flag = true;] calls }` with the calls as
   (method of TransitData, is it given the custom path), and `if (flag) { accepted += name; accepted += suffix; }` *)
Inductive loop_item := Block (c : text_cond) (sets_flag : bool) (calls : list (string * bool)) | Append (needs_flag : bool) (suffix : string).
(* where `dataStatus = transitData.getDataStatus()` stands after the loop *)
Inductive status_refresh := SR_always | SR_never | SR_then | SR_else.
Inductive load_final := LF_data_status | LF_const (status : nat).
(* one TransitData::updateX: the fetcher it calls, the collection it hands it first, does it empty the scenario connection cache before,
   is that collection emptied before anything is read (by updateX or at the head of the fetcher), which other arguments are,
   does it then rebuild the sorted connection lists, and only when the fetcher did not fail *)
Record update_fn := { uf_method : string; uf_fetcher : string; uf_target : string; uf_clears_cache : bool; uf_target_cleared : bool;
                      uf_also_cleared : list string; uf_rebuilds : bool; uf_rebuild_needs_ok : bool }.
Record v2_handler := { h_fast_path : bool; h_fast_status : string; h_factory : string; h_alt : option (string * string);
                       h_single : string * string; h_null_guard : bool; h_inner_catch : list (string * string); h_ok_status : string;
                       h_outer_catch : list (string * (string -> string) * string) }.
(* a function given by its value on every enumerator and its value elsewhere *)
Definition lookup_text (cases : list (nat * string)) (default : string) (v : nat) : string :=
  match find (fun p => Nat.eqb (fst p) v) cases with Some p => snd p | None => default end.
"""


def regenerate():
    rep = dict(guards={}, fallback=[])
    out = [HEADER]
    ds, pe, lines = gen_enums(rep)
    out += ["(* ---- enumerators: DataStatus (transit_data.hpp), ParameterException::Type (parameters.hpp) ---- *)"] + lines
    enums = {"DataStatus": dict(ds), "ParameterException::Type": dict(pe)}
    try:
        src = read(SERVER_CPP)
    except OSError as e:
        src = Text("")
        rep["fallback"].append("server source: %s" % e)
    try:
        dsrc = read(DATA_CPP)
    except OSError as e:
        dsrc = Text("")
        rep["fallback"].append("transit_data.cpp: %s" % e)
    out += gen_update(src, rep)
    out += ["(* ---- DataStatus -> text of the fast answer; ParameterException::Type -> error code ---- *)"]
    out += gen_table(src, rep, "fast_error", r"\bgetFastErrorResponse\s*\(", ds, enums, FAST_HAND, "DS")
    out += gen_table(src, rep, "init_response", r"\bintializeResponse\s*\(", ds, enums, INIT_HAND, "DS")
    out += gen_table(src, rep, "response_code", r"\bgetResponseCode\s*\(", pe, enums, CODE_HAND, "PE")
    out += gen_load_all(dsrc, rep, [n for n, _ in ds])
    out += gen_update_fns(dsrc, rep)
    out += gen_main_status(src, rep)
    out += gen_v2(src, rep)
    text = "\n".join(out) + "\n"
    os.makedirs(os.path.dirname(OUT), exist_ok=True)
    old = open(OUT).read() if os.path.exists(OUT) else None
    if old != text:
        with open(OUT, "w") as f:
            f.write(text)
    rep["changed"] = old != text
    rep["from_source"] = sum(1 for v in rep["guards"].values() if v == "source")
    rep["total"] = len(rep["guards"])
    return rep


if __name__ == "__main__":
    print(json.dumps(regenerate(), indent=1))
