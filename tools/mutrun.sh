#!/bin/sh
# usage: tools/mutrun.sh <id> <check ids...> — confirms a sub-agent's seeded change in ITS scratch worktree /tmp/mut-<id>
# (existing tests pass with it; demo fails with it and passes on the unchanged /repo) and runs the named checks against
# that worktree (TRV_REPO).  Never touches /repo.
ID=$1; shift
WT=/tmp/mut-$ID; OUT=/tmp/mutout-$ID; LOG=/var/tmp/mutrun-$ID.log
: > $LOG
echo "=== $ID" | tee -a $LOG
# bring the worktree up to /repo's current fix level (fix: commits made after the worktree was created)
for f in /var/tmp/*fix.diff; do
  [ -f "$f" ] && ( cd $WT && git apply --check "$f" 2>/dev/null && git apply "$f" && echo "applied $(basename $f)" | tee -a $LOG )
done
( cd $WT && git diff --stat | tail -1 ) | tee -a $LOG
echo "--- existing tests on the patched worktree" | tee -a $LOG
( cd $WT && make -j8 check 2>&1 | grep -E "^(PASS|FAIL):" ) | tee -a $LOG
echo "--- demo on unchanged /repo" | tee -a $LOG
( cd $OUT && timeout 1200 bash ./run_demo.sh /repo > /var/tmp/mutdemo-$ID-pristine.log 2>&1; echo "exit=$?" ) | tee -a $LOG
echo "--- demo on patched worktree" | tee -a $LOG
( cd $OUT && timeout 1200 bash ./run_demo.sh $WT > /var/tmp/mutdemo-$ID-patched.log 2>&1; echo "exit=$?" ) | tee -a $LOG
echo "--- checks against the patched worktree" | tee -a $LOG
cd ${VERIF_DIR:-/verif}
for c in "$@"; do
  TRV_REPO=$WT timeout 3000 ./check $c --tier quick > /var/tmp/mutchk-$ID-$c.log 2>&1; rc=$?
  echo "$c rc=$rc | $(grep -E 'VIOLATION' /var/tmp/mutchk-$ID-$c.log | head -1 | cut -c1-200) | $(tail -1 /var/tmp/mutchk-$ID-$c.log | cut -c1-200)" | tee -a $LOG
done
