from check_l3 import main_c16 as main
