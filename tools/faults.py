#!/usr/bin/env python3
"""Fault injection on cache directories (C17): file-level faults and cross-file inconsistencies."""
import os, re, shutil
from concurrent.futures import ThreadPoolExecutor
import l3

UNKNOWN = "99999999-0000-4000-8000-000000009999"


def write_from_texts(coll, node_files, line_files, dirpath):
    os.makedirs(os.path.join(dirpath, "nodes"), exist_ok=True)
    os.makedirs(os.path.join(dirpath, "lines"), exist_ok=True)
    jobs = [(schema, typ, text, [name]) for (name, schema, typ, text) in coll]
    if node_files:
        jobs.append(("node.capnp", "Node", "\n".join(t for (_, t) in node_files), [n for (n, _) in node_files]))
    if line_files:
        jobs.append(("line.capnp", "Line", "\n".join(t for (_, t) in line_files), [n for (n, _) in line_files]))

    def run(job):
        schema, typ, text, names = job
        data = l3._capnp_encode(schema, typ, text)
        return list(zip(names, [data] if len(names) == 1 else l3.split_packed(data, len(names))))
    with ThreadPoolExecutor(max_workers=len(jobs)) as ex:
        results = list(ex.map(run, jobs))
    for files in results:
        for (name, data) in files:
            with open(os.path.join(dirpath, name), "wb") as f:
                f.write(data)


def sub_first(text, pattern, repl):
    return re.sub(pattern, repl, text, count=1)


def inconsistencies(ds):
    """[(name, mutated (coll, node_files, line_files))] : the cross-file inconsistencies of the property text"""
    out = []
    base = l3.cache_texts(ds)

    def clone():
        c, n, l = base
        return [list(x) for x in c], [list(x) for x in n], [list(x) for x in l]

    def set_coll(c, fname, f):
        for e in c:
            if e[0] == fname:
                e[3] = f(e[3])

    def first_line_with_trip(l):
        for e in l:
            if "pathUuid" in e[1]:
                return e
        return None
    # trip -> unknown path
    c, n, l = clone(); e = first_line_with_trip(l)
    if e:
        e[1] = sub_first(e[1], r'pathUuid = "[^"]+"', 'pathUuid = "%s"' % UNKNOWN); out.append(("trip_unknown_path", (c, n, l)))
    # trip -> unknown service
    c, n, l = clone(); e = first_line_with_trip(l)
    if e:
        e[1] = sub_first(e[1], r'serviceUuid = "[^"]+"', 'serviceUuid = "%s"' % UNKNOWN); out.append(("trip_unknown_service", (c, n, l)))
    # trip with no stop times
    c, n, l = clone(); e = first_line_with_trip(l)
    if e:
        for fld in ("nodeArrivalTimesSeconds", "nodeDepartureTimesSeconds", "nodesCanBoard", "nodesCanUnboard"):
            e[1] = sub_first(e[1], fld + r' = \[[^\]]*\]', fld + ' = []')
        out.append(("trip_no_stop_times", (c, n, l)))
    # trip with more stop times than its path has stops
    c, n, l = clone(); e = first_line_with_trip(l)
    if e:
        for fld, extra in (("nodeArrivalTimesSeconds", "90000, 90100, 90200, 90300, 90400, 90500, 90600, 90700"), ("nodeDepartureTimesSeconds", "90000, 90100, 90200, 90300, 90400, 90500, 90600, 90700"),
                           ("nodesCanBoard", "1, 1, 1, 1, 1, 1, 1, 1"), ("nodesCanUnboard", "1, 1, 1, 1, 1, 1, 1, 1")):
            e[1] = sub_first(e[1], fld + r' = \[([^\]]*)\]', lambda m: fld + ' = [' + m.group(1) + (', ' if m.group(1).strip() else '') + extra + ']')
        out.append(("trip_too_many_stop_times", (c, n, l)))
    # exactly one stop time more (later than the last one): the boundary of the count test
    c, n, l = clone(); e = first_line_with_trip(l)
    if e:
        md = re.search(r'nodeDepartureTimesSeconds = \[([^\]]*)\]', e[1])
        last = [x.strip() for x in md.group(1).split(",") if x.strip()] if md else []
        x = str(int(last[-1]) + 60) if last else "60"
        for fld, extra in (("nodeArrivalTimesSeconds", x), ("nodeDepartureTimesSeconds", x), ("nodesCanBoard", "1"), ("nodesCanUnboard", "1")):
            e[1] = sub_first(e[1], fld + r' = \[([^\]]*)\]', lambda m, extra=extra, fld=fld: fld + ' = [' + m.group(1) + (', ' if m.group(1).strip() else '') + extra + ']')
        out.append(("trip_one_more_stop_time", (c, n, l)))
    # unequal array lengths
    c, n, l = clone(); e = first_line_with_trip(l)
    if e:
        e[1] = sub_first(e[1], r'nodesCanUnboard = \[[^\]]*\]', 'nodesCanUnboard = [1]'); out.append(("trip_short_flag_array", (c, n, l)))
    # trip with an unparsable uuid
    c, n, l = clone(); e = first_line_with_trip(l)
    if e:
        e[1] = sub_first(e[1], r'pathUuid = "[^"]+"', 'pathUuid = "not-a-uuid"'); out.append(("trip_bad_uuid_text", (c, n, l)))
    # stop times that go backwards (decodable, every count fits): one trip whose second arrival precedes its first departure;
    # every trip of every line with all arrivals before the departures (then no schedule is left)
    c, n, l = clone(); e = first_line_with_trip(l)
    if e:
        md = re.search(r'nodeDepartureTimesSeconds = \[([^\]]*)\]', e[1])
        ma = re.search(r'nodeArrivalTimesSeconds = \[([^\]]*)\]', e[1])
        dep = [x.strip() for x in md.group(1).split(",") if x.strip()] if md else []
        arr = [x.strip() for x in ma.group(1).split(",") if x.strip()] if ma else []
        if len(arr) >= 2 and dep:
            arr[1] = str(int(dep[0]) - 1)
            e[1] = e[1][:ma.start()] + 'nodeArrivalTimesSeconds = [' + ", ".join(arr) + ']' + e[1][ma.end():]
        out.append(("trip_arrival_before_departure", (c, n, l)))
    # the first stop's arrival after its departure: NOT an order violation the loader tests (that arrival is never used)
    c, n, l = clone(); e = first_line_with_trip(l)
    if e:
        md = re.search(r'nodeDepartureTimesSeconds = \[([^\]]*)\]', e[1])
        ma = re.search(r'nodeArrivalTimesSeconds = \[([^\]]*)\]', e[1])
        dep = [x.strip() for x in md.group(1).split(",") if x.strip()] if md else []
        arr = [x.strip() for x in ma.group(1).split(",") if x.strip()] if ma else []
        if arr and dep:
            arr[0] = str(int(dep[0]) + 7)
            e[1] = e[1][:ma.start()] + 'nodeArrivalTimesSeconds = [' + ", ".join(arr) + ']' + e[1][ma.end():]
        out.append(("trip_first_arrival_after_departure", (c, n, l)))
    c, n, l = clone(); e = first_line_with_trip(l)
    if e:
        e[1] = sub_first(e[1], r'nodeDepartureTimesSeconds = \[[^,\]]*', 'nodeDepartureTimesSeconds = [ -1'); out.append(("trip_negative_departure", (c, n, l)))
    c, n, l = clone()
    if first_line_with_trip(l):
        for e in l:
            e[1] = re.sub(r'nodeArrivalTimesSeconds = \[([^\]]*)\]',
                          lambda m: 'nodeArrivalTimesSeconds = [ ' + ", ".join("-5" for x in m.group(1).split(",") if x.strip()) + ']', e[1])
        out.append(("trips_times_backwards", (c, n, l)))
    # line -> unknown agency / unknown mode
    c, n, l = clone(); set_coll(c, "lines.capnpbin", lambda t: sub_first(t, r'agencyUuid = "[^"]+"', 'agencyUuid = "%s"' % UNKNOWN)); out.append(("line_unknown_agency", (c, n, l)))
    c, n, l = clone(); set_coll(c, "lines.capnpbin", lambda t: sub_first(t, r'mode = "[^"]+"', 'mode = "hovercraft"')); out.append(("line_unknown_mode", (c, n, l)))
    # stop file -> unknown stop
    c, n, l = clone()
    if n:
        n[0][1] = sub_first(n[0][1], r'transferableNodesUuids = \["[^"]+"', 'transferableNodesUuids = ["%s"' % UNKNOWN); out.append(("nodefile_unknown_stop", (c, n, l)))
    c, n, l = clone()
    if n:
        n[0][1] = sub_first(n[0][1], r'transferableNodesUuids = \["[^"]+"', 'transferableNodesUuids = ["zzz"'); out.append(("nodefile_bad_uuid_text", (c, n, l)))
    c, n, l = clone()
    if n:
        n[-1][1] = sub_first(n[-1][1], r'transferableNodesTravelTimes = \[[^\]]*\]', 'transferableNodesTravelTimes = []'); out.append(("nodefile_short_times", (c, n, l)))
    # a per-stop file with a negative walking time (decodable, every count fits): the row is ignored (D15)
    c, n, l = clone()
    if n:
        def neg_last(m):
            xs = [x.strip() for x in m.group(1).split(",") if x.strip()]
            if xs:
                xs[-1] = "-7"
            return 'transferableNodesTravelTimes = [ ' + ", ".join(xs) + ']'
        for e in n:
            e[1] = re.sub(r'transferableNodesTravelTimes = \[([^\]]*)\]', neg_last, e[1], count=1)
        out.append(("nodefile_negative_walk_time", (c, n, l)))
    # path -> unknown stop / unknown line / bad JSON
    c, n, l = clone(); set_coll(c, "paths.capnpbin", lambda t: sub_first(t, r'nodesUuids = \["[^"]+"', 'nodesUuids = ["%s"' % UNKNOWN)); out.append(("path_unknown_stop", (c, n, l)))
    c, n, l = clone(); set_coll(c, "paths.capnpbin", lambda t: sub_first(t, r'lineUuid = "[^"]+"', 'lineUuid = "%s"' % UNKNOWN)); out.append(("path_unknown_line", (c, n, l)))
    c, n, l = clone(); set_coll(c, "paths.capnpbin", lambda t: sub_first(t, r'data = "(\\.|[^"])*"', 'data = "{not json"')); out.append(("path_bad_json", (c, n, l)))
    # scenario -> unknown ids
    c, n, l = clone(); set_coll(c, "scenarios.capnpbin", lambda t: sub_first(t, r'servicesUuids = \["[^"]+"', 'servicesUuids = ["%s"' % UNKNOWN)); out.append(("scenario_unknown_service", (c, n, l)))
    c, n, l = clone(); set_coll(c, "scenarios.capnpbin", lambda t: t.replace('exceptLinesUuids = []', 'exceptLinesUuids = ["%s"]' % UNKNOWN, 1).replace('onlyModesShortnames = []', 'onlyModesShortnames = ["hovercraft"]', 1)); out.append(("scenario_unknown_line_and_mode", (c, n, l)))
    c, n, l = clone(); set_coll(c, "scenarios.capnpbin", lambda t: sub_first(t, r'uuid = "[^"]+"', 'uuid = "bad uuid"')); out.append(("scenario_bad_uuid_text", (c, n, l)))
    # agency / service / node collections with a bad uuid
    c, n, l = clone(); set_coll(c, "agencies.capnpbin", lambda t: sub_first(t, r'uuid = "[^"]+"', 'uuid = "xx"')); out.append(("agency_bad_uuid_text", (c, n, l)))
    c, n, l = clone(); set_coll(c, "nodes.capnpbin", lambda t: sub_first(t, r'uuid = "[^"]+"', 'uuid = "xx"')); out.append(("node_bad_uuid_text", (c, n, l)))
    return out


def list_files(cache):
    out = []
    for root, _, fs in os.walk(cache):
        for f in fs:
            if f.endswith(".capnpbin"):
                out.append(os.path.relpath(os.path.join(root, f), cache))
    return sorted(out)


def apply_file_fault(src_cache, dst_cache, fault):
    """fault = (kind, relative file, arg): delete | empty | truncate(offset) | flip(bit index) | zero(start, length)"""
    shutil.rmtree(dst_cache, ignore_errors=True)
    shutil.copytree(src_cache, dst_cache)
    apply_in_place(dst_cache, fault)


def apply_in_place(cache, fault):
    """the same fault applied to the directory `cache` itself (a server may be running on it: the file is rewritten in
    one write(), the loaders open the files anew at every (re)load)"""
    kind, rel, arg = fault
    p = os.path.join(cache, rel)
    if kind == "delete":
        os.unlink(p)
        return
    with open(p, "rb") as f:
        data = bytearray(f.read())
    if kind == "empty":
        data = bytearray()
    elif kind == "truncate":
        data = data[:arg]
    elif kind == "flip":
        if len(data):
            data[(arg // 8) % len(data)] ^= 1 << (arg % 8)
    elif kind == "zero":
        s, n = arg
        for i in range(s, min(len(data), s + n)):
            data[i] = 0
    with open(p, "wb") as f:
        f.write(bytes(data))
