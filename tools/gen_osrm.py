#!/usr/bin/env python3
"""Translator for the reply handling of the walking-router client: regenerates coq/gen/OsrmReply.v from the CURRENT
source src/osrmgeofilter.cpp - the body of OsrmGeoFilter::getAccessibleNodesFootpathsFromPoint AFTER the bird-distance
pre-filter loop - as a STATEMENT TREE (type `ostmt` of coq/OsrmCode.v):

  the early return on an empty candidate list, the parts appended to the query string (`sources=0` / `destinations=0` by
  `reversed`), the `try` with what is inside it (client, request, the status test and what its `return` returns, the body
  read), what the `catch` catches and returns, the parse (where it stands: inside or outside the try), the null tests as
  a conjunction IN SOURCE ORDER with the JSON paths they test, the size reads, the size test, the loop (first index,
  comparison, bound, the reads with their JSON paths and conversions, the guard, what is pushed, the index into the
  candidate vector), the final return.

What is read and how:
  * names are found by their DECLARATIONS (the vector of NodeTimeDistance = the rows, the vector of Node references = the
    candidates, the first int parameter = the maximum, the bool parameter = `reversed`, the std::stringstream, the
    SimpleWeb client type through its `using`, the response `auto s = client.request(..)`, the json `X = json::parse(..)`),
    so renaming a local gives the same tree; int locals are numbered in the order of their declarations;
  * int expressions: literals, int locals, the loop index, the maximum, `candidates.size()`, `J<path>.size()`,
    `(int)ceil((float)J<path>)` (also std::ceil / static_cast), `+`, `-`; conditions: `J<path> != nullptr`,
    `s->status_code != / == "200 OK"`, `reversed`, int comparisons, `&&` (left to right);
  * `return X`: the rows vector -> RRows, `{}` / a fresh vector -> REmptyLit, anything else -> ROther;
  * `catch (const std::exception&)` -> KStdException, `catch (...)` -> KAll, another type -> KOther;
  * `spdlog::` lines, `using`, the declaration of the stream are dropped; a reference alias of a candidate
    (`const auto &n = candidates[i - 1]`) used in the block that declares it is substituted back.
Everything else (a json alias - a `const` one reads through the const operator[], which does not insert null -, a const
json, `while`, a nested loop, several handlers, unsigned locals, an unknown call) is NOT guessed: the committed hand tree
is emitted, policy `fallback` with the reason (no alarm by itself; never silently).

Fragments:  gen_osrm_row_body (the body of the loop over the reply), gen_osrm_reply (the whole tail of the function)."""
import os, re, sys, json

HERE = os.path.dirname(os.path.abspath(__file__))
sys.path.insert(0, HERE)
import gen_guards as GG
import gen_geo as G

VERIF = os.path.dirname(HERE)
OUT = os.path.join(VERIF, "coq", "gen", "OsrmReply.v")
SRC_OSRM = G.SRC_OSRM
SIG_OSRM = G.SIG_OSRM
Untranslatable = G.Untranslatable
tokenize, balanced, split_top, is_op, is_id, txt = G.tokenize, G.balanced, G.split_top, G.is_op, G.is_id, G.txt

KEYS = {"durations": "K_DURATIONS", "distances": "K_DISTANCES"}
QPARTS = {"?annotations=duration,distance": "QAnnotations", "&sources=0": "QSources0", "&destinations=0": "QDestinations0"}
CMP = {"<=": "OLe", "<": "OLt", ">=": "OGe", ">": "OGt", "==": "OEq", "!=": "ONe"}


# ------------------------------------------------------------------------------------------------
# statements (as gen_geo.parse_stmt, but the catch clause keeps its parameter)
#   ('simple', toks) ('return', toks) ('if', cond, then, else) ('for', header, body) ('while', cond, body)
#   ('try', body, [(param toks, handler body)]) ('block', nodes) ('break',) ('continue',)

def parse_block(toks):
    out, i = [], 0
    while i < len(toks):
        ns, i = parse_stmt(toks, i)
        out += ns
    return out


def parse_stmt(toks, i):
    k, t = toks[i]
    if (k, t) == ("op", "{"):
        inner, j = balanced(toks, i)
        return [("block", parse_block(inner))], j
    if (k, t) == ("op", ";"):
        return [], i + 1
    if k == "id" and t in ("if", "while", "for"):
        if not is_op(toks, i + 1, "("):
            raise Untranslatable("`%s` without parentheses" % t)
        head, j = balanced(toks, i + 1)
        body, j = parse_stmt(toks, j)
        if t == "if":
            el = []
            if is_id(toks, j, "else"):
                el, j = parse_stmt(toks, j + 1)
            return [("if", head, G.unblock(body), G.unblock(el))], j
        return [(t, head, G.unblock(body))], j
    if k == "id" and t == "try":
        body, j = parse_stmt(toks, i + 1)
        handlers = []
        while is_id(toks, j, "catch"):
            param, j = balanced(toks, j + 1)
            hb, j = parse_stmt(toks, j)
            handlers.append((param, G.unblock(hb)))
        return [("try", G.unblock(body), handlers)], j
    if k == "id" and t in ("do", "switch", "goto", "case", "default", "throw"):
        raise Untranslatable("unsupported statement `%s`" % t)
    depth, j = 0, i
    while j < len(toks):
        if toks[j][0] == "op" and toks[j][1] in G.OPEN:
            depth += 1
        elif toks[j][0] == "op" and toks[j][1] in G.CLOSE:
            depth -= 1
        elif depth == 0 and toks[j] == ("op", ";"):
            break
        j += 1
    if j >= len(toks):
        raise Untranslatable("statement without `;`")
    body = toks[i:j]
    if k == "id" and t in ("break", "continue"):
        return [(t,)], j + 1
    if k == "id" and t == "return":
        return [("return", body[1:])], j + 1
    return [("simple", body)], j + 1


# ------------------------------------------------------------------------------------------------
# the names of the function

class Names:
    def __init__(self):
        self.rows = self.cands = self.maxt = self.reversed = None
        self.query = self.stream = self.client_type = self.client = self.resp = self.json = None
        self.ints = {}          # name -> number (scoped: copied on block entry)
        self.next_int = [0]     # shared counter
        self.row_var = None     # the loop index
        self.cand_alias = {}    # name -> (index tree, block id)
        self.block = [0]
        self.block_id = 0

    def child(self, new_block=True):
        n = Names.__new__(Names)
        n.__dict__.update(self.__dict__)
        n.ints = dict(self.ints)
        n.cand_alias = dict(self.cand_alias)
        if new_block:
            self.block[0] += 1
            n.block_id = self.block[0]
        return n


def strip_decl_type(toks):
    """`const std::vector<..> & name` -> (type text, name) for a declaration WITHOUT initial value / with one"""
    return toks


def vector_kind(type_text):
    if "vector" in type_text and "NodeTimeDistance" in type_text:
        return "rows"
    if "vector" in type_text and "Node" in type_text:
        return "cands"
    return None


# ------------------------------------------------------------------------------------------------
# expressions

class Tr:
    def __init__(self, names, ctx):
        self.n = names
        self.ctx = ctx

    # --- JSON paths ---------------------------------------------------------------------------
    def json_path(self, toks):
        """toks = J [..][..]... (exactly): -> list of step texts, or None when toks is not a read of the json"""
        if not toks or not is_id(toks, 0, self.n.json) or self.n.json is None:
            return None
        i, path = 1, []
        while i < len(toks):
            if not is_op(toks, i, "["):
                return None
            inner, i = balanced(toks, i)
            if len(inner) == 1 and inner[0][0] == "str":
                key = inner[0][1].strip('"')
                path.append("JKey %s" % KEYS.get(key, str(2 + (sum(map(ord, key)) % 1000))))
            elif len(inner) == 1 and inner[0][0] == "num" and re.match(r"^\d+$", inner[0][1]):
                path.append("JAt %d" % int(inner[0][1]))
            elif len(inner) == 1 and inner[0][0] == "id" and inner[0][1] == self.n.row_var:
                path.append("JRow")
            else:
                raise Untranslatable("JSON value indexed by something else than a key, a literal or the loop index: " + txt(inner)[:40])
        return path

    @staticmethod
    def coq_path(path):
        return "[%s]" % "; ".join(path)

    # --- int expressions ----------------------------------------------------------------------
    def exp(self, toks):
        if not toks:
            raise Untranslatable("empty expression")
        parts, ops, cur, depth = [], [], [], 0
        for idx, t in enumerate(toks):
            if t[0] == "op" and t[1] in G.OPEN:
                depth += 1
            elif t[0] == "op" and t[1] in G.CLOSE:
                depth -= 1
            if depth == 0 and t[0] == "op" and t[1] in ("+", "-") and cur:
                parts.append(cur); ops.append(t[1]); cur = []
            else:
                cur.append(t)
        parts.append(cur)
        e = self.atom(parts[0])
        for o, p in zip(ops, parts[1:]):
            e = "(%s %s %s)" % ("OAdd" if o == "+" else "OSub", e, self.atom(p))
        return e

    def strip_parens(self, toks):
        while toks and is_op(toks, 0, "("):
            inner, j = balanced(toks, 0)
            if j != len(toks):
                break
            toks = inner
        return toks

    def float_read(self, toks):
        """(float)J<path> / static_cast<float>(J<path>) / float(J<path>) -> path"""
        toks = self.strip_parens(toks)
        if len(toks) > 3 and is_op(toks, 0, "(") and is_id(toks, 1) and toks[1][1] in ("float", "double") and is_op(toks, 2, ")"):
            p = self.json_path(self.strip_parens(toks[3:]))
            if p is not None:
                return p
        if is_id(toks, 0, "static_cast") and is_op(toks, 1, "<") and is_id(toks, 2) and toks[2][1] in ("float", "double") and is_op(toks, 3, ">") \
                and is_op(toks, 4, "("):
            inner, j = balanced(toks, 4)
            if j == len(toks):
                p = self.json_path(self.strip_parens(inner))
                if p is not None:
                    return p
        if is_id(toks, 0) and toks[0][1] in ("float", "double") and is_op(toks, 1, "("):
            inner, j = balanced(toks, 1)
            if j == len(toks):
                p = self.json_path(self.strip_parens(inner))
                if p is not None:
                    return p
        raise Untranslatable("argument of ceil is not (float)<JSON read>: " + txt(toks)[:60])

    def ceil_call(self, toks):
        toks = self.strip_parens(toks)
        if is_id(toks, 0) and toks[0][1] in ("ceil", "std::ceil", "ceilf", "std::ceilf") and is_op(toks, 1, "("):
            inner, j = balanced(toks, 1)
            if j == len(toks):
                return self.float_read(inner)
        raise Untranslatable("conversion to int of something else than ceil(..): " + txt(toks)[:60])

    def atom(self, toks):
        toks = self.strip_parens(toks)
        if not toks:
            raise Untranslatable("empty operand")
        if len(toks) == 1:
            k, t = toks[0]
            if k == "num":
                if not re.match(r"^\d+$", t):
                    raise Untranslatable("literal `%s` where an int is expected" % t)
                return "(OLit %d)" % int(t)
            if k == "id":
                if t == self.n.row_var:
                    return "ORow"
                if t in self.n.ints:
                    return "(OVar %d)" % self.n.ints[t]
                if t == self.n.maxt:
                    return "OMaxT"
            raise Untranslatable("unknown int operand `%s`" % t)
        # (int) X
        if is_op(toks, 0, "(") and is_id(toks, 1, "int") and is_op(toks, 2, ")"):
            return "(OCeil %s)" % self.coq_path(self.ceil_call(toks[3:]))
        if is_id(toks, 0, "static_cast") and is_op(toks, 1, "<") and is_id(toks, 2, "int") and is_op(toks, 3, ">") and is_op(toks, 4, "("):
            inner, j = balanced(toks, 4)
            if j == len(toks):
                return "(OCeil %s)" % self.coq_path(self.ceil_call(inner))
        if is_id(toks, 0, "int") and is_op(toks, 1, "("):
            inner, j = balanced(toks, 1)
            if j == len(toks):
                return "(OCeil %s)" % self.coq_path(self.ceil_call(inner))
        # X.size()
        if len(toks) >= 5 and is_op(toks, len(toks) - 1, ")") and is_op(toks, len(toks) - 2, "(") and is_id(toks, len(toks) - 3, "size") \
                and is_op(toks, len(toks) - 4, "."):
            recv = toks[:-4]
            if len(recv) == 1 and recv[0] == ("id", self.n.cands):
                return "OCands"
            p = self.json_path(recv)
            if p is not None:
                return "(OSize %s)" % self.coq_path(p)
            raise Untranslatable("size() of something else than the candidates / a JSON value: " + txt(recv)[:40])
        if any(t[0] == "op" and t[1] in ("+", "-") for t in toks):
            return self.exp(toks)
        raise Untranslatable("int expression not understood: " + txt(toks)[:60])

    # --- conditions ---------------------------------------------------------------------------
    def cond(self, toks):
        toks = self.strip_parens(toks)
        if any(t == ("op", "||") for t in self.top_level(toks)):
            raise Untranslatable("`||` in a condition")
        parts = split_top(toks, "&&")
        if len(parts) > 1:
            c = self.cond(parts[0])
            for p in parts[1:]:
                c = "(CAnd %s %s)" % (c, self.cond(p))
            return c
        if is_op(toks, 0, "!"):
            rest = self.strip_parens(toks[1:])
            # !J<path>.is_null()
            if len(rest) >= 5 and txt(rest[-4:]) == ".is_null()":
                p = self.json_path(rest[:-4])
                if p is not None:
                    return "(CNotNull %s)" % self.coq_path(p)
            raise Untranslatable("negation not understood: " + txt(toks)[:60])
        if len(toks) == 1 and toks[0] == ("id", self.n.reversed):
            return "CReversed"
        if len(toks) == 3 and toks[0] == ("id", self.n.cands) and txt(toks[1:]) == ".empty" :
            pass
        if len(toks) == 5 and toks[0] == ("id", self.n.cands) and txt(toks[1:]) == ".empty()":
            return "(CCmp OEq OCands (OLit 0))"
        # a comparison at top level
        top = [(i, t) for i, t in self.top_level_idx(toks) if t[0] == "op" and t[1] in CMP]
        if len(top) != 1:
            raise Untranslatable("condition not understood: " + txt(toks)[:80])
        i, (_, op) = top[0]
        lhs, rhs = toks[:i], toks[i + 1:]
        if len(rhs) == 1 and rhs[0] == ("id", "nullptr"):
            p = self.json_path(self.strip_parens(lhs))
            if p is None:
                raise Untranslatable("comparison with nullptr of something else than a JSON read: " + txt(lhs)[:40])
            if op != "!=":
                raise Untranslatable("`== nullptr` test is not modelled")
            return "(CNotNull %s)" % self.coq_path(p)
        if self.n.resp is not None and txt(lhs) == self.n.resp + "->status_code" and len(rhs) == 1 and rhs[0][0] == "str":
            if rhs[0][1] != '"200 OK"':
                raise Untranslatable("status compared with %s" % rhs[0][1])
            if op == "!=":
                return "CStatusNot200"
            if op == "==":
                return "CStatusIs200"
            raise Untranslatable("status compared with `%s`" % op)
        return "(CCmp %s %s %s)" % (CMP[op], self.exp(lhs), self.exp(rhs))

    @staticmethod
    def top_level_idx(toks):
        depth = 0
        for i, t in enumerate(toks):
            if t[0] == "op" and t[1] in G.OPEN:
                depth += 1
            elif t[0] == "op" and t[1] in G.CLOSE:
                depth -= 1
            elif depth == 0:
                yield i, t

    def top_level(self, toks):
        return [t for _, t in self.top_level_idx(toks)]


# ------------------------------------------------------------------------------------------------
# statements -> tree text

def seq(items, indent):
    if not items:
        return "SSkip"
    pad = " " * indent
    return "(seq [\n%s%s ])" % (pad, (";\n" + pad).join(items))


class Translator:
    def __init__(self, ctx):
        self.ctx = ctx
        self.loop_body = None
        self.in_loop = False
        self.notes = []

    def stmts(self, nodes, names, indent):
        out = []
        for n in nodes:
            out += self.stmt(n, names, indent)
        return out

    def decl_split(self, toks):
        """a declaration `T name [= init | (init) | {init}]` -> (type toks, name, init toks or None); None when toks is no declaration"""
        i = 0
        while is_id(toks, i) and toks[i][1] in ("const", "static", "constexpr"):
            i += 1
        if not is_id(toks, i):
            return None
        j = i + 1
        while is_id(toks, j) and toks[j][1] in ("int", "long", "unsigned", "short", "char", "const", "double"):
            j += 1
        if is_op(toks, j, "<"):
            depth = 0
            while j < len(toks):
                if toks[j] == ("op", "<"):
                    depth += 1
                elif toks[j] == ("op", ">"):
                    depth -= 1
                    if depth == 0:
                        j += 1
                        break
                j += 1
            if is_id(toks, j) and toks[j][1].startswith("::"):
                return None
        while j < len(toks) and toks[j][0] == "op" and toks[j][1] in ("&", "&&", "*"):
            j += 1
        while is_id(toks, j, "const"):
            j += 1
        if not is_id(toks, j):
            return None
        if not (j + 1 == len(toks) or (toks[j + 1][0] == "op" and toks[j + 1][1] in ("=", "(", "{", ","))):
            return None
        return toks[:j], toks[j][1], toks[j + 1:]

    def stmt(self, n, names, indent):
        kind = n[0]
        tr = Tr(names, self.ctx)
        if kind == "block":
            inner = names.child()
            r = self.stmts(n[1], inner, indent)
            self.export(inner, names)
            return r
        if kind == "return":
            return ["SReturn %s" % self.ret(n[1], names)]
        if kind == "if":
            c = tr.cond(n[1])
            a, b = names.child(), names.child()
            th = seq(self.stmts(n[2], a, indent + 4), indent + 4)
            el = seq(self.stmts(n[3], b, indent + 4), indent + 4)
            self.export(a, names); self.export(b, names)
            return ["SIf %s\n%s  %s\n%s  %s" % (c, " " * indent, th, " " * indent, el)]
        if kind == "try":
            if len(n[2]) != 1:
                raise Untranslatable("a try with %d handlers" % len(n[2]))
            param, hbody = n[2][0]
            ptxt = txt(param)
            if ptxt == "...":
                k = "KAll"
            elif re.match(r"^(const)?std::exception(const)?&?\w*$", ptxt):
                k = "KStdException"
            else:
                k = "KOther"
                self.notes.append("the handler catches `%s`: emitted as KOther (catches nothing the model throws)" % ptxt)
            a, b = names.child(), names.child()
            body = seq(self.stmts(n[1], a, indent + 4), indent + 4)
            # what the try declares (the response, the client) is out of scope after it; int numbering goes on
            self.export(a, names)
            h = seq(self.stmts(hbody, b, indent + 4), indent + 4)
            self.export(b, names)
            return ["STry %s\n%s  %s\n%s  %s" % (body, " " * indent, k, " " * indent, h)]
        if kind == "for":
            return [self.loop(n, names, indent)]
        if kind in ("while", "break", "continue"):
            raise Untranslatable("`%s` in the reply handling" % kind)
        if kind != "simple":
            raise Untranslatable("statement kind " + kind)
        return self.simple(n[1], names, tr)

    def export(self, inner, outer):
        """names an inner block fixes that the rest of the function needs (the function has one stream, one json):
        the json declared in a block is not visible outside - only the int counter is shared (it is a list)"""
        pass

    def ret(self, toks, names):
        t = txt(toks)
        if len(toks) == 1 and toks[0] == ("id", names.rows):
            return "RRows"
        if t in ("{}",) or re.match(r"^std::vector<NodeTimeDistance>(\(\)|\{\})$", t):
            return "REmptyLit"
        self.notes.append("`return %s` is not the rows vector: emitted as ROther" % t[:40])
        return "ROther"

    def loop(self, n, names, indent):
        if self.in_loop:
            raise Untranslatable("a nested loop")
        parts = split_top(n[1], ";")
        if len(parts) != 3:
            raise Untranslatable("a range-for in the reply handling")
        init, cond, step = parts
        if len(init) < 4 or not is_id(init, 0, "int") or not is_id(init, 1) or not is_op(init, 2, "="):
            raise Untranslatable("the loop does not start with `int i = ...`: " + txt(init)[:40])
        var = init[1][1]
        first = Tr(names, self.ctx).exp(init[3:])
        inner = names.child()
        inner.row_var = var
        tr = Tr(inner, self.ctx)
        top = [(i, t) for i, t in tr.top_level_idx(cond) if t[0] == "op" and t[1] in CMP]
        if len(top) != 1 or txt(cond[:top[0][0]]) != var:
            raise Untranslatable("the loop test is not `%s <cmp> bound`: %s" % (var, txt(cond)[:40]))
        op = top[0][1][1]
        if op not in ("<", "<="):
            raise Untranslatable("the loop test uses `%s`" % op)
        bound = tr.exp(cond[top[0][0] + 1:])
        st = txt(step)
        if st not in (var + "++", "++" + var, var + "+=1", "%s=%s+1" % (var, var)):
            raise Untranslatable("the loop does not advance by one: " + st)
        self.in_loop = True
        body_nodes = n[2]
        written = G.assigned_names(body_nodes)
        if var in written:
            raise Untranslatable("the loop body writes the loop index")
        body = seq(self.stmts(body_nodes, inner, 4), 4)
        self.in_loop = False
        if self.loop_body is not None:
            raise Untranslatable("more than one loop after the pre-filter")
        self.loop_body = body
        return "SFor %s %s %s gen_osrm_row_body" % (first, CMP[op], bound)

    def simple(self, toks, names, tr):
        t0 = toks[0][1] if toks else ""
        if not toks:
            return []
        if toks[0][0] == "id" and (t0.startswith("spdlog::") or t0 in ("using", "typedef")):
            if t0 == "using" and len(toks) >= 4 and is_op(toks, 2, "=") and "SimpleWeb::Client" in txt(toks[3:]):
                names.client_type = toks[1][1]
            return []
        # query += "..."
        if names.query and len(toks) == 3 and toks[0] == ("id", names.query) and toks[1] == ("op", "+=") and toks[2][0] == "str":
            s = toks[2][1].strip('"')
            if s not in QPARTS:
                self.notes.append("query part %r is not one of the expected ones: QOtherPart" % s)
            return ["SQuery %s" % QPARTS.get(s, "QOtherPart")]
        # stream << resp->content.rdbuf()
        if names.stream and toks[0] == ("id", names.stream) and is_op(toks, 1, "<") and is_op(toks, 2, "<"):
            if names.resp is None or txt(toks[3:]) != names.resp + "->content.rdbuf()":
                raise Untranslatable("the stream is written with something else than the response body: " + txt(toks)[:60])
            return ["SReadBody"]
        d = self.decl_split(toks)
        if d is not None:
            type_toks, name, rest = d
            tt = txt(type_toks)
            base = [t for _, t in type_toks if t not in ("const", "&", "&&", "static")]
            if "stringstream" in tt or "ostringstream" in tt:
                if rest:
                    raise Untranslatable("the stream is declared with an initial value")
                names.stream = name
                return []
            if names.client_type and base == [names.client_type] or "SimpleWeb::Client" in tt:
                names.client = name
                return ["SClient"]
            init = rest
            if init and init[0] == ("op", "="):
                init = init[1:]
            elif init and init[0][0] == "op" and init[0][1] in ("(", "{"):
                init, j = balanced(init, 0)
                if j != len(rest):
                    raise Untranslatable("declaration not understood: " + txt(toks)[:60])
            it = txt(init)
            # the request
            if names.client and it.startswith(names.client + ".request("):
                if base != ["auto"]:
                    raise Untranslatable("the response is declared `%s`" % tt)
                args, j = balanced(init, 3)
                a = split_top(args, ",")
                if j != len(init) or len(a) != 2:
                    raise Untranslatable("request(..) with %d arguments" % len(a))
                get = txt(a[0]) == '"GET"'
                sends = names.query is not None and txt(a[1]) == names.query
                names.resp = name
                return ["SRequest %s %s" % ("true" if get else "false", "true" if sends else "false")]
            # the parse
            if re.match(r"^(nlohmann::)?json::parse\(", it):
                if "const" in [t for _, t in type_toks]:
                    raise Untranslatable("the reply is parsed into a CONST json: the const operator[] does not insert null (not modelled)")
                if base not in (["nlohmann::json"], ["json"], ["auto"]):
                    raise Untranslatable("the parsed reply is declared `%s`" % tt)
                if names.stream is None or it not in ("nlohmann::json::parse(%s.str())" % names.stream, "json::parse(%s.str())" % names.stream):
                    raise Untranslatable("what is parsed is not the stream's text: " + it[:60])
                if self.in_loop:
                    raise Untranslatable("the parse is inside the loop")
                names.json = name
                self.json_name = name
                return ["SParse"]
            # the json declared first and parsed later
            if base in (["nlohmann::json"], ["json"]) and not init and "const" not in [t for _, t in type_toks] and "&" not in [t for _, t in type_toks]:
                names.json = name
                return []
            # a reference to a candidate
            if "&" in [t for _, t in type_toks] and names.cands and init and init[0] == ("id", names.cands) and is_op(init, 1, "["):
                inner, j = balanced(init, 1)
                if j == len(init):
                    names.cand_alias[name] = (tr.exp(inner), names.block_id)
                    return []
            if names.json and any(t == ("id", names.json) for t in init) and base != ["int"]:
                raise Untranslatable("`%s %s` keeps a JSON value in a local (a const reference reads through the const operator[], "
                                     "which does not insert null; not modelled)" % (tt, name))
            if base == ["int"]:
                out = []
                for dd in split_top([("id", name)] + rest, ","):
                    if not dd or dd[0][0] != "id":
                        raise Untranslatable("declaration not understood: " + txt(toks)[:60])
                    nm, ini = dd[0][1], dd[1:]
                    if ini and ini[0] == ("op", "="):
                        ini = ini[1:]
                    elif ini and ini[0][0] == "op" and ini[0][1] in ("(", "{"):
                        ini, _ = balanced(ini, 0)
                    e = tr.exp(ini) if ini else None     # the initial value is read BEFORE the name is (re)bound
                    names.ints[nm] = names.next_int[0]
                    names.next_int[0] += 1
                    out.append("SAssign %d %s" % (names.ints[nm], e) if e is not None else "SDecl %d" % names.ints[nm])
                return out
            raise Untranslatable("declaration of `%s %s` is not understood" % (tt, name))
        # J = json::parse(stream.str())
        if names.json and names.stream and len(toks) >= 3 and toks[0] == ("id", names.json) and toks[1] == ("op", "=") and \
                txt(toks[2:]) in ("nlohmann::json::parse(%s.str())" % names.stream, "json::parse(%s.str())" % names.stream):
            if self.in_loop:
                raise Untranslatable("the parse is inside the loop")
            return ["SParse"]
        # v = e
        if len(toks) >= 3 and toks[0][0] == "id" and toks[1] == ("op", "=") and toks[0][1] in names.ints:
            return ["SAssign %d %s" % (names.ints[toks[0][1]], tr.exp(toks[2:]))]
        # rows.push_back(NodeTimeDistance(cands[k], t, d)) / rows.emplace_back(cands[k], t, d)
        if len(toks) >= 4 and toks[0] == ("id", names.rows) and is_op(toks, 1, ".") and is_id(toks, 2) and toks[2][1] in ("push_back", "emplace_back") \
                and is_op(toks, 3, "("):
            inner, j = balanced(toks, 3)
            if j != len(toks):
                raise Untranslatable("text after push_back(...)")
            if toks[2][1] == "push_back":
                if not (is_id(inner, 0, "NodeTimeDistance") and is_op(inner, 1, "(")):
                    raise Untranslatable("what is pushed is not NodeTimeDistance(...)")
                inner, j = balanced(inner, 1)
            args = split_top(inner, ",")
            if len(args) != 3:
                raise Untranslatable("NodeTimeDistance with %d arguments" % len(args))
            ti, di = self.ctx.ntd_ctor()
            node = args[0]
            if len(node) == 1 and node[0][0] == "id" and node[0][1] in names.cand_alias:
                idx, blk = names.cand_alias[node[0][1]]
                if blk != names.block_id:
                    raise Untranslatable("the candidate reference `%s` is taken in another block than the push" % node[0][1])
            elif node and node[0] == ("id", names.cands) and is_op(node, 1, "["):
                ix, j = balanced(node, 1)
                if j != len(node):
                    raise Untranslatable("the row is not about a candidate: " + txt(node)[:40])
                idx = tr.exp(ix)
            else:
                raise Untranslatable("the row is not about a candidate: " + txt(node)[:40])
            return ["SPush %s %s %s" % (idx, tr.exp(args[ti]), tr.exp(args[di]))]
        raise Untranslatable("statement not understood: " + txt(toks)[:70])


def translate(repo):
    """-> (dict name -> Coq text, notes)"""
    ctx = G.Ctx(repo)
    src = ctx.osrm
    f = G.Function(src, SIG_OSRM)
    body = parse_block(tokenize(GG.fn_body(src, SIG_OSRM))[1:-1])
    names = Names()
    # parameters
    for ptoks, pname in f.params:
        ty = G.arith_type(ptoks)
        if ty == "int" and names.maxt is None:
            names.maxt = pname
        elif ty == "bool":
            names.reversed = pname
    if names.maxt is None or names.reversed is None:
        raise Untranslatable("the maximum (int) / the direction (bool) parameter was not found")
    tr = Translator(ctx)
    # the head: declarations up to and including the pre-filter loop over the stops
    k, found = 0, False
    while k < len(body):
        n = body[k]
        k += 1
        if n[0] == "simple":
            d = tr.decl_split(n[1])
            if d is not None:
                kind = vector_kind(txt(d[0]))
                if kind == "rows":
                    names.rows = d[1]
                elif kind == "cands":
                    names.cands = d[1]
                elif "std::string" in txt(d[0]) and d[2] and "/table/v1/" in txt(d[2]):
                    names.query = d[1]
        elif n[0] == "for" and len(split_top(n[1], ":")) == 2 and not any(t == ("op", ";") for t in n[1]):
            found = True
            # the rows must not be touched by the pre-filter (gen_geo.py reads the loop itself)
            if names.rows and any(t == ("id", names.rows) for t in G.all_tokens(n[2])):
                raise Untranslatable("the pre-filter loop touches the rows")
            break
        elif n[0] == "return":
            raise Untranslatable("`return` before the pre-filter loop")
        else:
            raise Untranslatable("a `%s` before the pre-filter loop" % n[0])
    if not found:
        raise Untranslatable("the pre-filter loop over the stops was not found")
    if names.rows is None or names.cands is None:
        raise Untranslatable("the rows / the candidate vector declaration was not found")
    if names.query is None:
        raise Untranslatable("the query string declaration was not found")
    items = tr.stmts(body[k:], names, 4)
    if tr.loop_body is None:
        raise Untranslatable("the loop over the reply was not found")
    return {"gen_osrm_row_body": tr.loop_body, "gen_osrm_reply": seq(items, 4)}, tr.notes


FRAGMENTS = [
    ("gen_osrm_row_body", "the body of the loop over the reply (one round: the reads, the guard, the push)"),
    ("gen_osrm_reply", "OsrmGeoFilter::getAccessibleNodesFootpathsFromPoint after the pre-filter loop, to its end"),
]

# the committed trees (python3 tools/gen_osrm.py --print-hand)
HAND = {
    'gen_osrm_row_body': """(seq [
    SAssign 2 (OCeil [JKey K_DURATIONS; JAt 0; JRow]);
    SIf (CCmp OLe (OVar 2) OMaxT)
      (seq [
        SAssign 3 (OCeil [JKey K_DISTANCES; JAt 0; JRow]);
        SPush (OSub ORow (OLit 1)) (OVar 2) (OVar 3) ])
      SSkip ])""",
    'gen_osrm_reply': """(seq [
    SIf (CCmp OEq OCands (OLit 0))
      (seq [
        SReturn RRows ])
      SSkip;
    SQuery QAnnotations;
    SIf CReversed
      (seq [
        SQuery QDestinations0 ])
      (seq [
        SQuery QSources0 ]);
    STry (seq [
        SClient;
        SRequest true true;
        SIf CStatusNot200
          (seq [
            SReturn RRows ])
          SSkip;
        SReadBody ])
      KStdException
      (seq [
        SReturn RRows ]);
    SParse;
    SIf (CAnd (CAnd (CAnd (CNotNull [JKey K_DURATIONS]) (CNotNull [JKey K_DISTANCES])) (CNotNull [JKey K_DURATIONS; JAt 0])) (CNotNull [JKey K_DISTANCES; JAt 0]))
      (seq [
        SAssign 0 (OSize [JKey K_DURATIONS; JAt 0]);
        SAssign 1 (OSize [JKey K_DISTANCES; JAt 0]);
        SIf (CAnd (CCmp OGt (OVar 0) (OLit 0)) (CCmp OGt (OVar 1) (OLit 0)))
          (seq [
            SDecl 2;
            SDecl 3;
            SFor (OLit 1) OLt (OVar 0) gen_osrm_row_body ])
          SSkip ])
      SSkip;
    SReturn RRows ])"""}


def regenerate():
    repo = os.environ.get("TRV_REPO", "/repo")
    report = dict(functions={}, fallback=[], notes=[])
    got = {}
    try:
        got, notes = translate(repo)
        report["notes"] = notes
    except (OSError, Untranslatable, ValueError) as e:
        report["fallback"].append("osrm_reply: %s" % e)
    except Exception as e:          # a source shape the translator was not written for: a fallback, said so
        report["fallback"].append("osrm_reply: not understood (%s: %s)" % (type(e).__name__, e))
    src = all(n in got for n, _ in FRAGMENTS)
    report["functions"]["osrm_reply"] = "source" if src else "fallback"
    if not src and HAND is None:
        raise RuntimeError("osrm: the reply handling could not be read and there is no committed tree (%s)" % "; ".join(report["fallback"]))
    lines = ["(* GENERATED by tools/gen_osrm.py from /repo's src/osrmgeofilter.cpp (getAccessibleNodesFootpathsFromPoint after the",
             "   pre-filter loop; constructor argument order from include/node.hpp) - do not edit. *)",
             "From TrV Require Import Osrm.",
             "Require Import TrV.OsrmCode.",
             "Import ListNotations.",
             "Local Open Scope Z_scope.",
             ""]
    for n, what in FRAGMENTS:
        body = got[n] if src else HAND[n]
        lines += ["(* %s *)" % what, "Definition %s : ostmt :=\n  %s.   (* %s *)" % (n, body, "source" if src else "fallback"), ""]
    text = "\n".join(lines)
    os.makedirs(os.path.dirname(OUT), exist_ok=True)
    old = open(OUT).read() if os.path.exists(OUT) else None
    if old != text:
        with open(OUT, "w") as fh:
            fh.write(text)
    report["changed"] = old != text
    report["from_source"] = 1 if src else 0
    report["total"] = 1
    report["policy"] = "source" if src else "fallback"
    if not src:
        report["reason"] = "; ".join(report["fallback"])
    return report


if __name__ == "__main__":
    if len(sys.argv) > 1 and sys.argv[1] == "--print-hand":
        got, notes = translate(os.environ.get("TRV_REPO", "/repo"))
        print("HAND = {\n%s}" % ",\n".join('    %r: """%s"""' % (n, got[n]) for n, _ in FRAGMENTS))
    else:
        print(json.dumps(regenerate(), indent=1))
