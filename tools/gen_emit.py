#!/usr/bin/env python3
"""Translator, stage 3b: regenerates coq/gen/Emit.v from the CURRENT source of Calculator::reverseJourneyStep
(reverse_journey.cpp): the step-emission loop `for (auto & journeyStep : journey)` as a Coq value of type `eskel`
(coq/Emit.v) and the assignments of the running totals to the result after the loop as `gen_emit_result`.

Unlike the scan skeletons (gen_skel.py), nothing here is a tag: every `if` carries its condition, every assignment
`x = e` / `x += e` / `x -= e` its right-hand side (`+=` becomes old + e), every `steps.push_back(std::make_unique<
BoardingStep|UnboardingStep|WalkingStep>(args...))` its argument list, all TRANSLATED by the expression parser of
gen_guards.py into Coq expressions over the machine's variables (`em_v m V_x`) and the atoms of coq/Emit.v (`x_*`).
Proofs/EmitTie.v proves that the model (Journey.v: emit_step, emit_loop, emit) computes what the interpreter of
coq/Emit.v computes on THIS tree, so a dropped guard, an assignment moved into / out of a block, `=` turned into `+=`,
a changed operand, a changed step argument or a changed result field breaks a proof obligation on the next run.

Policy (as gen_guards.py / gen_skel.py): what the translator cannot read - unknown statement, unknown identifier,
a refactoring (lambda, helper function, other loop shape) - makes it emit the committed tree, reported `fallback`
(no alarm by itself: the behavioural correspondence still decides)."""
import os, re, sys, json

HERE = os.path.dirname(os.path.abspath(__file__))
sys.path.insert(0, HERE)
import gen_guards as GG
import gen_skel as SK
from gen_skel import Untranslatable, flat

VERIF = os.path.dirname(HERE)
OUT = os.path.join(VERIF, "coq", "gen", "Emit.v")
SRC = "connection_scan_algorithm/src/reverse_journey.cpp"
SIG = "Calculator::reverseJourneyStep("
B, Z = GG.B, GG.Z

EVARS = ["totalInVehicleTime", "totalWalkingTime", "totalWaitingTime", "totalTransferWalkingTime", "totalTransferWaitingTime",
         "totalDistance", "totalInVehicleDistance", "totalWalkingDistance", "totalTransferDistance", "accessDistance",
         "egressDistance", "transferArrivalTime", "numberOfTransfers", "arrivalTime", "accessWalkingTime", "egressWalkingTime",
         "accessWaitingTime", "transferTime", "distance", "inVehicleDistance", "departureTime", "boardingSequence",
         "unboardingSequence", "inVehicleTime", "waitingTime", "transferReadyTime"]

# whitespace-free C++ text -> (Coq term, type); `e` is the iteration's environment, `m` the machine
ATOMS = {v: ("(em_v m V_%s)" % v, Z) for v in EVARS}
ATOMS.update({
    "bestDepartureTime": ("(ev_bestdep e)", Z),
    "journeyStep.hasConnections()": ("(js_has_conns (ev_j e))", B),
    "journeyStep.getTransferTravelTime()": ("(js_walk (ev_j e))", Z),
    "journeyStep.getTransferDistance()": ("(js_dist (ev_j e))", Z),
    "journeyStepEnterConnection.getDepartureTime()": ("(x_enter_dep e)", Z),
    "journeyStepExitConnection.getArrivalTime()": ("(x_exit_arr e)", Z),
    "journeyStepEnterConnection.getSequenceInTrip()": ("(x_enter_seq e)", Z),
    "journeyStepExitConnection.getSequenceInTrip()": ("(x_exit_seq e)", Z),
    "journey.size()>i+1": ("(x_has_next e)", B),
    "journey[i+1].getFinalEnterConnection().has_value()": ("(x_next_has_enter e)", B),
    "journey[i+1].getFinalEnterConnection().value().get().getMinWaitingTimeOrDefault(parameters.getMinWaitingTimeSeconds())": ("(x_next_minw e)", Z),
    "journeyStepTrip.line.mode.isTransferable()": ("(x_transferable e)", B),
    "journeyStepTrip.path.segmentsDistanceMeters.size()": ("(x_nseg e)", Z),
    "i": ("(Z.of_nat (ev_i e))", Z),
    "journeyStepsCount": ("(Z.of_nat (ev_count e))", Z),
    "journey.size()": ("(Z.of_nat (ev_count e))", Z),
})
# arguments of the step constructors that are objects, not numbers
OBJ = {
    "journeyStepTrip": "(x_trip e)", "journeyStepNodeDeparture": "(x_node_dep e)", "journeyStepNodeArrival": "(x_node_arr e)",
    "walking_step_type::ACCESS": "0%nat", "walking_step_type::EGRESS": "1%nat", "walking_step_type::TRANSFER": "2%nat",
}
# after the loop: the totals only
RESULT_ATOMS = {v: ("(em_v m V_%s)" % v, Z) for v in EVARS}
RESULT_ATOMS["bestDepartureTime"] = ("bestdep", Z)

# declarations of the ridden-leg branch: references into the journey step (the atoms above speak about them)
BINDINGS = [
    r"^constConnection&journeyStepEnterConnection=journeyStep\.getFinalEnterConnection\(\)\.value\(\)\.get\(\)$",
    r"^constConnection&journeyStepExitConnection=journeyStep\.getFinalExitConnection\(\)\.value\(\)\.get\(\)$",
    r"^constNode&journeyStepNodeDeparture=journeyStepEnterConnection\.getDepartureNode\(\)$",
    r"^constNode&journeyStepNodeArrival=journeyStepExitConnection\.getArrivalNode\(\)$",
    r"^constTrip&journeyStepTrip=journeyStep\.getFinalTrip\(\)\.value\(\)\.get\(\)$",
    # the legs of the result are not part of the model's route record
    r"^legs\.push_back\(std::make_tuple\(std::ref\(journeyStepTrip\),boardingSequence-1,unboardingSequence-1\)\)$",
]
SEG_LOOP_HEADER = r"^intseqI=boardingSequence-1;seqI<unboardingSequence;(?:seqI\+\+|\+\+seqI)$"
SEG_LOOP_BODY = r"^inVehicleDistance\+=journeyStepTrip\.path\.segmentsDistanceMeters(?:\[seqI\]|\.at\(seqI\))$"
LOOP_PROLOGUE = "size_tjourneyStepsCount=journey.size();size_ti=0;for(auto&journeyStep:journey)"

STEP_CTORS = {   # constructor -> (Coq function, kinds of the arguments: o object, z number; None = variadic numbers after the kind)
    "BoardingStep": ("step_board", "ozzozz"),
    "UnboardingStep": ("step_unboard", "ozzozzz"),
    "WalkingStep": ("step_walk", None),
}
RESULT_FIELDS = {
    "departureTime": "rt_dep", "arrivalTime": "rt_arr", "totalTravelTime": "rt_ttt", "totalDistance": "rt_tdist",
    "totalInVehicleTime": "rt_tivt", "totalInVehicleDistance": "rt_tivd", "totalNonTransitTravelTime": "rt_tnt",
    "totalNonTransitDistance": "rt_tntd", "numberOfBoardings": "rt_nboard", "numberOfTransfers": "rt_ntransf",
    "transferWalkingTime": "rt_trwalk", "transferWalkingDistance": "rt_trdist", "accessTravelTime": "rt_acc",
    "accessDistance": "rt_accd", "egressTravelTime": "rt_egr", "egressDistance": "rt_egrd",
    "transferWaitingTime": "rt_trwait", "firstWaitingTime": "rt_fwait", "totalWaitingTime": "rt_twait",
}
RESULT_ORDER = ["rt_dep", "rt_arr", "rt_ttt", "rt_tdist", "rt_tivt", "rt_tivd", "rt_tnt", "rt_tntd", "rt_nboard", "rt_ntransf",
                "rt_trwalk", "rt_trdist", "rt_acc", "rt_accd", "rt_egr", "rt_egrd", "rt_trwait", "rt_fwait", "rt_twait"]


# ------------------------------------------------------------------------------------------------
# expressions

def split_top(text, sep):
    """splits whitespace-free text at the separators that are outside parentheses / brackets / angle-free"""
    parts, depth, cur = [], 0, ""
    for ch in text:
        if ch in "([":
            depth += 1
        elif ch in ")]":
            depth -= 1
        if ch == sep and depth == 0:
            parts.append(cur)
            cur = ""
        else:
            cur += ch
    parts.append(cur)
    return parts


def strip_parens(t):
    while t.startswith("(") and t.endswith(")"):
        depth = 0
        for k, ch in enumerate(t):
            depth += ch == "("
            depth -= ch == ")"
            if depth == 0 and k < len(t) - 1:
                return t
        t = t[1:-1]
    return t


class EParser(GG.Parser):
    """negative literals are written as literals (`-1`), not as the opposite of a literal"""
    def p_un(self):
        p = self.peek()
        nxt = self.t[self.i + 1] if self.i + 1 < len(self.t) else None
        if p == ("op", "-") and nxt and nxt[0] == "int":
            self.i += 2
            return ("(-%d)" % nxt[1], Z)
        return GG.Parser.p_un(self)


def expr(text, ty, atoms):
    """Coq term of a whitespace-free C++ expression; `c ? a : b` at the top level becomes if/then/else"""
    t = strip_parens(text)
    q = split_top(t, "?")
    if len(q) > 1:
        cond = q[0]
        rest = "?".join(q[1:])
        # the `:` matching this `?`
        depth, nest = 0, 0
        for k, ch in enumerate(rest):
            if ch in "([":
                depth += 1
            elif ch in ")]":
                depth -= 1
            elif ch == "?" and depth == 0:
                nest += 1
            elif ch == ":" and depth == 0 and not rest.startswith("::", k) and not (k > 0 and rest[k - 1] == ":"):
                if nest == 0:
                    return "(if %s then %s else %s)" % (expr(cond, B, atoms), expr(rest[:k], ty, atoms), expr(rest[k + 1:], ty, atoms))
                nest -= 1
        raise Untranslatable("malformed conditional expression: " + text[:60])
    try:
        p = EParser(GG.tokenize(t, atoms))
        e = p.parse()
    except GG.Untranslatable as ex:
        raise Untranslatable(str(ex))
    if e[1] != ty:
        raise Untranslatable("expression %s has type %s, %s expected" % (text[:60], e[1], ty))
    return e[0]


# ------------------------------------------------------------------------------------------------
# statements

def statement(text):
    """one simple statement of the loop body -> ('set', var, coq) | ('push', coq) | None (binding / logging)"""
    t = flat(text)
    if SK.LOGGING.match(t):
        return None
    for rx in BINDINGS:
        if re.match(rx, t):
            return None
    m = re.match(r"^singleResult\.get\(\)->steps\.push_back\(std::make_unique<(\w+)>\((.*)\)\)$", t)
    if m:
        ctor, args = m.group(1), split_top(m.group(2), ",")
        if ctor not in STEP_CTORS:
            raise Untranslatable("unknown step type " + ctor)
        fn, kinds = STEP_CTORS[ctor]
        if kinds is None:
            if not args or args[0] not in OBJ:
                raise Untranslatable("walking step without a known type: " + t[:80])
            nums = [expr(a, Z, ATOMS) for a in args[1:]]
            return ("push", "%s %s [%s]" % (fn, OBJ[args[0]], "; ".join(nums)))
        if len(args) != len(kinds):
            raise Untranslatable("%s with %d arguments, %d expected" % (ctor, len(args), len(kinds)))
        out = []
        for a, kd in zip(args, kinds):
            if kd == "o":
                if a not in OBJ:
                    raise Untranslatable("unknown object argument %s of %s" % (a, ctor))
                out.append(OBJ[a])
            else:
                out.append(expr(a, Z, ATOMS))
        return ("push", "%s %s" % (fn, " ".join(out)))
    m = re.match(r"^([A-Za-z_]\w*)(\+=|-=|=)(?!=)(.+)$", t)
    if m and m.group(1) in EVARS:
        var, op, rhs = m.group(1), m.group(2), expr(m.group(3), Z, ATOMS)
        old = ATOMS[var][0]
        if op == "+=":
            rhs = "(%s + %s)" % (old, rhs)
        elif op == "-=":
            rhs = "(%s - %s)" % (old, rhs)
        return ("set", var, rhs)
    m = re.match(r"^(?:([A-Za-z_]\w*)\+\+|\+\+([A-Za-z_]\w*))$", t)
    if m and (m.group(1) or m.group(2)) in EVARS:
        var = m.group(1) or m.group(2)
        return ("set", var, "(%s + 1)" % ATOMS[var][0])
    raise Untranslatable("unrecognised statement: " + t[:90])


def convert(nodes):
    out = []
    for n in nodes:
        if n[0] == "stmt":
            s = statement(n[1])
            if s is not None:
                out.append(s)
        elif n[0] == "if":
            th, el = convert(n[2]), convert(n[3])
            if th or el:
                out.append(("if", expr(flat(n[1]), B, ATOMS), th, el))
        elif n[0] == "for":
            body = [b for b in n[2]]
            if re.match(SEG_LOOP_HEADER, flat(n[1])) and len(body) == 1 and body[0][0] == "stmt" and re.match(SEG_LOOP_BODY, flat(body[0][1])):
                out.append(("sumseg",))
            else:
                raise Untranslatable("unrecognised loop: for(%s)" % flat(n[1])[:80])
        else:
            raise Untranslatable("`%s` in the emission loop" % n[0])
    return out


def emit(nodes, indent):
    pad = "  " * indent
    if not nodes:
        return "EDone"
    n, rest = nodes[0], nodes[1:]
    k = emit(rest, indent)
    if n[0] == "set":
        return "ESet V_%s (fun e m => %s)\n%s(%s)" % (n[1], n[2], pad, k)
    if n[0] == "push":
        return "EPush (fun e m => %s)\n%s(%s)" % (n[1], pad, k)
    if n[0] == "sumseg":
        return "ESumSegments\n%s(%s)" % (pad, k)
    if n[0] == "if":
        return "EIf (fun e m => %s)\n%s  (%s)\n%s  (%s)\n%s(%s)" % (n[1], pad, emit(n[2], indent + 1), pad, emit(n[3], indent + 1), pad, k)
    raise Untranslatable("unexpected node")


def translate(src):
    body = GG.fn_body(src, SIG)
    m = re.search(r"for\s*\(\s*auto\s*&\s*journeyStep\s*:\s*journey\s*\)", body)
    if not m:
        raise Untranslatable("emission loop not found")
    if not flat(body[:m.end()]).endswith(LOOP_PROLOGUE):
        raise Untranslatable("the declarations of journeyStepsCount / i in front of the loop are not the expected ones")
    nodes, j = SK.parse_stmt(body, m.start())
    loop = nodes[0]
    stmts = list(loop[2])
    if not stmts or stmts[-1][0] != "stmt" or not re.match(r"^(?:i\+\+|\+\+i|i\+=1)$", flat(stmts[-1][1])):
        raise Untranslatable("the loop body does not end with i++")
    for n in SK.walk(stmts[:-1]):
        if n[0] == "stmt" and re.match(r"^(?:i\+\+|\+\+i|i[-+*/]?=(?!=).*|i--|--i)$", flat(n[1])):
            raise Untranslatable("the index is written inside the loop body")
    skel = emit(convert(stmts[:-1]), 1)
    # after the loop, up to the end of the enclosing block: singleResult.get()->field = expr;
    fields = {}
    k = SK.skip_ws(body, j)
    while k < len(body) and body[k] != "}":
        ns, k = SK.parse_stmt(body, k)
        for n in ns:
            if n[0] != "stmt":
                raise Untranslatable("`%s` after the emission loop" % n[0])
            t = flat(n[1])
            if SK.LOGGING.match(t) or t == "singleResult.get()->legs=legs":
                continue
            mm = re.match(r"^singleResult\.get\(\)->(\w+)=(?!=)(.+)$", t)
            if not mm or mm.group(1) not in RESULT_FIELDS:
                raise Untranslatable("unrecognised statement after the loop: " + t[:90])
            f = RESULT_FIELDS[mm.group(1)]
            if f in fields:
                raise Untranslatable("result field %s assigned twice" % mm.group(1))
            fields[f] = expr(mm.group(2), Z, RESULT_ATOMS)
        k = SK.skip_ws(body, k)
    missing = [f for f in RESULT_ORDER if f not in fields]
    if missing:
        raise Untranslatable("result fields not assigned after the loop: " + ", ".join(missing))
    result = "{| " + ";\n     ".join("%s := %s" % (f, fields[f]) for f in RESULT_ORDER) + ";\n     rt_steps := em_steps m |}"
    return skel, result


# the committed tree (what the translator reads in the source the proofs were made for; `--print-hand` prints it)
HAND = dict(
    skel="""EIf (fun e m => (js_has_conns (ev_j e)))
    (ESet V_transferTime (fun e m => (js_walk (ev_j e)))
    (ESet V_distance (fun e m => (js_dist (ev_j e)))
    (ESet V_inVehicleDistance (fun e m => 0)
    (ESet V_departureTime (fun e m => (x_enter_dep e))
    (ESet V_arrivalTime (fun e m => (x_exit_arr e))
    (ESet V_boardingSequence (fun e m => (x_enter_seq e))
    (ESet V_unboardingSequence (fun e m => (x_exit_seq e))
    (ESet V_inVehicleTime (fun e m => ((em_v m V_arrivalTime) - (em_v m V_departureTime)))
    (ESet V_waitingTime (fun e m => ((em_v m V_departureTime) - (em_v m V_transferArrivalTime)))
    (ESet V_transferArrivalTime (fun e m => ((em_v m V_arrivalTime) + (em_v m V_transferTime)))
    (ESet V_transferReadyTime (fun e m => (em_v m V_transferArrivalTime))
    (EIf (fun e m => ((x_has_next e) && (x_next_has_enter e)))
      (ESet V_transferReadyTime (fun e m => ((em_v m V_transferReadyTime) + (x_next_minw e)))
      (EDone))
      (EDone)
    (ESet V_totalInVehicleTime (fun e m => ((em_v m V_totalInVehicleTime) + (em_v m V_inVehicleTime)))
    (ESet V_totalWaitingTime (fun e m => ((em_v m V_totalWaitingTime) + (em_v m V_waitingTime)))
    (EIf (fun e m => (negb (x_transferable e)))
      (ESet V_numberOfTransfers (fun e m => ((em_v m V_numberOfTransfers) + 1))
      (EDone))
      (EDone)
    (EIf (fun e m => (((em_v m V_unboardingSequence) - 1) <? (x_nseg e)))
      (ESumSegments
      (EIf (fun e m => (negb ((em_v m V_totalDistance) =? (-1))))
        (ESet V_totalDistance (fun e m => ((em_v m V_totalDistance) + (em_v m V_inVehicleDistance)))
        (EDone))
        (EDone)
      (EIf (fun e m => (x_transferable e))
        (ESet V_totalWalkingDistance (fun e m => ((em_v m V_totalWalkingDistance) + (em_v m V_inVehicleDistance)))
        (ESet V_totalWalkingTime (fun e m => ((em_v m V_totalWalkingTime) + (em_v m V_inVehicleTime)))
        (ESet V_totalTransferDistance (fun e m => ((em_v m V_totalTransferDistance) + (em_v m V_inVehicleDistance)))
        (ESet V_totalTransferWalkingTime (fun e m => ((em_v m V_totalTransferWalkingTime) + (em_v m V_inVehicleTime)))
        (EDone)))))
        (EIf (fun e m => (negb ((em_v m V_totalInVehicleDistance) =? (-1))))
          (ESet V_totalInVehicleDistance (fun e m => ((em_v m V_totalInVehicleDistance) + (em_v m V_inVehicleDistance)))
          (EDone))
          (EDone)
        (EDone))
      (EDone))))
      (ESet V_inVehicleDistance (fun e m => (-1))
      (ESet V_totalDistance (fun e m => (-1))
      (ESet V_totalInVehicleDistance (fun e m => (-1))
      (EDone))))
    (EIf (fun e m => ((Z.of_nat (ev_i e)) =? 1))
      (ESet V_accessWaitingTime (fun e m => (em_v m V_waitingTime))
      (EDone))
      (ESet V_totalTransferWaitingTime (fun e m => ((em_v m V_totalTransferWaitingTime) + (em_v m V_waitingTime)))
      (EDone))
    (EPush (fun e m => step_board (x_trip e) (em_v m V_boardingSequence) (em_v m V_boardingSequence) (x_node_dep e) (em_v m V_departureTime) (em_v m V_waitingTime))
    (EPush (fun e m => step_unboard (x_trip e) (em_v m V_unboardingSequence) ((em_v m V_unboardingSequence) + 1) (x_node_arr e) (em_v m V_arrivalTime) (em_v m V_inVehicleTime) (em_v m V_inVehicleDistance))
    (EIf (fun e m => ((Z.of_nat (ev_i e)) <? ((Z.of_nat (ev_count e)) - 2)))
      (ESet V_totalTransferWalkingTime (fun e m => ((em_v m V_totalTransferWalkingTime) + (em_v m V_transferTime)))
      (ESet V_totalWalkingTime (fun e m => ((em_v m V_totalWalkingTime) + (em_v m V_transferTime)))
      (EIf (fun e m => (negb ((em_v m V_totalDistance) =? (-1))))
        (ESet V_totalDistance (fun e m => ((em_v m V_totalDistance) + (em_v m V_distance)))
        (EDone))
        (EDone)
      (ESet V_totalWalkingDistance (fun e m => ((em_v m V_totalWalkingDistance) + (em_v m V_distance)))
      (ESet V_totalTransferDistance (fun e m => ((em_v m V_totalTransferDistance) + (em_v m V_distance)))
      (EPush (fun e m => step_walk 2%nat [(em_v m V_transferTime); (em_v m V_distance); (em_v m V_arrivalTime); (em_v m V_transferArrivalTime); (em_v m V_transferReadyTime)])
      (EDone)))))))
      (EDone)
    (EDone)))))))))))))))))))))
    (ESet V_transferTime (fun e m => (js_walk (ev_j e)))
    (ESet V_distance (fun e m => (js_dist (ev_j e)))
    (EIf (fun e m => (negb ((em_v m V_totalDistance) =? (-1))))
      (ESet V_totalDistance (fun e m => ((em_v m V_totalDistance) + (em_v m V_distance)))
      (EDone))
      (EDone)
    (ESet V_totalWalkingDistance (fun e m => ((em_v m V_totalWalkingDistance) + (em_v m V_distance)))
    (EIf (fun e m => ((Z.of_nat (ev_i e)) =? 0))
      (ESet V_transferArrivalTime (fun e m => ((ev_bestdep e) + (em_v m V_transferTime)))
      (ESet V_transferReadyTime (fun e m => (em_v m V_transferArrivalTime))
      (EIf (fun e m => ((x_has_next e) && (x_next_has_enter e)))
        (ESet V_transferReadyTime (fun e m => ((em_v m V_transferReadyTime) + (x_next_minw e)))
        (EDone))
        (EDone)
      (ESet V_totalWalkingTime (fun e m => ((em_v m V_totalWalkingTime) + (em_v m V_transferTime)))
      (ESet V_accessWalkingTime (fun e m => (em_v m V_transferTime))
      (ESet V_accessDistance (fun e m => (em_v m V_distance))
      (EPush (fun e m => step_walk 0%nat [(em_v m V_transferTime); (em_v m V_distance); (ev_bestdep e); (em_v m V_transferArrivalTime); (em_v m V_transferReadyTime)])
      (EDone))))))))
      (ESet V_totalWalkingTime (fun e m => ((em_v m V_totalWalkingTime) + (em_v m V_transferTime)))
      (ESet V_egressWalkingTime (fun e m => (em_v m V_transferTime))
      (ESet V_transferArrivalTime (fun e m => ((em_v m V_arrivalTime) + (em_v m V_transferTime)))
      (ESet V_egressDistance (fun e m => (em_v m V_distance))
      (EPush (fun e m => step_walk 1%nat [(em_v m V_transferTime); (em_v m V_distance); (em_v m V_arrivalTime); ((em_v m V_arrivalTime) + (em_v m V_transferTime))])
      (ESet V_arrivalTime (fun e m => (em_v m V_transferArrivalTime))
      (EDone)))))))
    (EDone))))))
  (EDone)""",
    result="""{| rt_dep := bestdep;
     rt_arr := (em_v m V_arrivalTime);
     rt_ttt := ((em_v m V_arrivalTime) - bestdep);
     rt_tdist := (em_v m V_totalDistance);
     rt_tivt := (em_v m V_totalInVehicleTime);
     rt_tivd := (em_v m V_totalInVehicleDistance);
     rt_tnt := (em_v m V_totalWalkingTime);
     rt_tntd := (em_v m V_totalWalkingDistance);
     rt_nboard := ((em_v m V_numberOfTransfers) + 1);
     rt_ntransf := (if ((em_v m V_numberOfTransfers) =? (-1)) then 0 else (em_v m V_numberOfTransfers));
     rt_trwalk := (em_v m V_totalTransferWalkingTime);
     rt_trdist := (em_v m V_totalTransferDistance);
     rt_acc := (em_v m V_accessWalkingTime);
     rt_accd := (em_v m V_accessDistance);
     rt_egr := (em_v m V_egressWalkingTime);
     rt_egrd := (em_v m V_egressDistance);
     rt_trwait := (em_v m V_totalTransferWaitingTime);
     rt_fwait := (em_v m V_accessWaitingTime);
     rt_twait := (em_v m V_totalWaitingTime);
     rt_steps := em_steps m |}""")


def regenerate():
    repo = os.environ.get("TRV_REPO", "/repo")
    report = dict(functions={}, fallback=[])
    origin = "source"
    try:
        src = GG.strip_c_comments(open(os.path.join(repo, SRC)).read())
        skel, result = translate(src)
    except (Untranslatable, GG.Untranslatable, ValueError, OSError) as e:
        if HAND is None:
            raise RuntimeError("emit: %s, and no committed tree to fall back to" % e)
        origin = "fallback"
        report["fallback"].append("emit: %s" % e)
        skel, result = HAND["skel"], HAND["result"]
    report["functions"]["emit"] = origin
    text = "\n".join([
        "(* GENERATED by tools/gen_emit.py from /repo's reverse_journey.cpp (Calculator::reverseJourneyStep) - do not edit.",
        "   emit: %s *)" % origin,
        "From Coq Require Import List ZArith Bool.",
        "From TrV Require Import Scan Journey.",
        "Require Import TrV.Emit.",
        "Import ListNotations.",
        "Local Open Scope Z_scope.",
        "Local Open Scope bool_scope.",
        "",
        "(* the body of `for (auto & journeyStep : journey)` without the final i++ *)",
        "Definition gen_emit_skel : eskel :=\n  %s." % skel,
        "",
        "(* singleResult.get()->... = ...; after the loop *)",
        "Definition gen_emit_result (bestdep : Z) (m : emach) : route :=\n  %s." % result,
        ""])
    os.makedirs(os.path.dirname(OUT), exist_ok=True)
    old = open(OUT).read() if os.path.exists(OUT) else None
    if old != text:
        with open(OUT, "w") as fh:
            fh.write(text)
    report["changed"] = old != text
    report["from_source"] = sum(1 for v in report["functions"].values() if v == "source")
    report["total"] = len(report["functions"])
    return report


if __name__ == "__main__":
    if len(sys.argv) > 1 and sys.argv[1] == "--print-hand":
        src = GG.strip_c_comments(open(os.path.join(os.environ.get("TRV_REPO", "/repo"), SRC)).read())
        skel, result = translate(src)
        print("HAND = dict(\n    skel=\"\"\"%s\"\"\",\n    result=\"\"\"%s\"\"\")" % (skel, result))
    else:
        print(json.dumps(regenerate(), indent=1))
