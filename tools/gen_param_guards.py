#!/usr/bin/env python3
"""Translator for the PARAMETER FACTORIES: regenerates coq/gen/ParamGuards.v from the CURRENT sources of
  connection_scan_algorithm/src/parameters/common_parameters.cpp         (CommonParameters::createCommonParameter, getIntegerValue,
      the constructor that stores the parsed values),
  connection_scan_algorithm/src/parameters/route_parameters.cpp          (RouteParameters::createRouteODParameter),
  connection_scan_algorithm/src/parameters/accessibility_parameters.cpp  (AccessibilityParameters::createAccessibilityParameter),
  include/parameters.hpp                                                 (DEFAULT_* constants, ParameterException::Type, the getters).
Per parameter key of the common factory: the key strings accepted (character codes), the conversion (integer parse / comparison
of the value with string literals / uuid lookup), the effect of the branch on the factory's locals as a Coq function (the value
written as a function of the previous value and the parsed number: `gen_upd_*`; `gen_norm_*` is the same expression when the
previous value does not occur in it, i.e. when the source assigns unconditionally), the value a local starts with, the
ParameterException type raised by a failed conversion; the ordered tests after the loop.  For the route / accessibility factories:
the keys, the lon,lat rule (separator set, count test, which component goes through std::stod, the error that leaves the `try`),
the ordered missing-parameter tests, and the ORDER of loop / tests / call of the common factory, composed into
`gen_create_common`, `gen_create_route`, `gen_create_access`.  Proofs/ParamGuardsTie.v proves that the model's factories
(Params.v) are these functions.

Method (as tools/gen_loader_guards.py, whose statement tree and expression parser are reused): comments removed, string literals
replaced by tokens (their text kept) -> statement tree of the factory -> declarations / the range-for / the if-chains of `throw`s /
the call of the common factory / the final constructor call.  A local is identified by its ROLE, never by its name: the argument
position it occupies in the final constructor call -> the constructor parameter -> the member it initialises -> the getter of
parameters.hpp that returns that member.  The body of a key branch is executed symbolically over those locals (assignment,
declaration of a temporary, `if`/`else`, logging dropped, a trailing `continue`).

Policy: what the translator cannot read is emitted as the committed hand-written definition, reported `fallback` (no alarm by
itself: tools/check_c18.py still compares the factories with the model).  What it CAN read is emitted as read, and if that is
not what the model does, Proofs/ParamGuardsTie.v does not compile."""
import os, re, sys, json

HERE = os.path.dirname(os.path.abspath(__file__))
VERIF = os.path.dirname(HERE)
sys.path.insert(0, HERE)
import gen_loader_guards as LG
from gen_loader_guards import Untranslatable, flat, B, Z, N

REPO = os.environ.get("TRV_REPO", "/repo")
OUT = os.path.join(VERIF, "coq", "gen", "ParamGuards.v")
S, P = "option nat", "point"          # the two non-numeric kinds of local: the scenario reference, an optional Point

F_COMMON = "connection_scan_algorithm/src/parameters/common_parameters.cpp"
F_ROUTE = "connection_scan_algorithm/src/parameters/route_parameters.cpp"
F_ACCESS = "connection_scan_algorithm/src/parameters/accessibility_parameters.cpp"
F_HDR = "include/parameters.hpp"
IDENT = LG.IDENT

# the getters of parameters.hpp that define what a stored value MEANS -> field of the generated record -> name of the fragments
SLOTS = [("getTimeOfTrip", "time", Z, "time_of_trip"), ("getMinWaitingTimeSeconds", "minw", Z, "min_waiting_time"),
         ("getMaxTotalTravelTimeSeconds", "maxtt", Z, "max_travel_time"),
         ("getMaxAccessWalkingTravelTimeSeconds", "maxacc", Z, "max_access_travel_time"),
         ("getMaxEgressWalkingTravelTimeSeconds", "maxegr", Z, "max_egress_travel_time"),
         ("getMaxTransferWalkingTravelTimeSeconds", "maxtr", Z, "max_transfer_travel_time"),
         ("getMaxFirstWaitingTimeSeconds", "maxfw", Z, "max_first_waiting_time"),
         ("isForwardCalculation", "fwd", B, "time_type"), ("getScenario", "scen", S, "scenario_id")]
FIELDS = [s[1] for s in SLOTS]
FTYPE = {s[1]: s[2] for s in SLOTS}
FNAME = {s[1]: s[3] for s in SLOTS}
ENUM_HAND = [("MISSING_SCENARIO", 0), ("MISSING_ORIGIN", 1), ("MISSING_DESTINATION", 2), ("MISSING_TIME_OF_TRIP", 3), ("MISSING_PLACE", 4),
             ("EMPTY_SCENARIO", 5), ("INVALID_ORIGIN", 6), ("INVALID_DESTINATION", 7), ("INVALID_PLACE", 8), ("INVALID_NUMERICAL_DATA", 9)]


# ------------------------------------------------------------------------------------------------
# text preparation: comments out, string / character literals -> tokens STR<k> (text kept in a table)

class Source:
    def __init__(self, rel):
        self.rel = rel
        self.strings = []
        raw = open(os.path.join(REPO, rel)).read()
        out, i, n = [], 0, len(raw)
        while i < n:
            ch = raw[i]
            if raw.startswith("//", i):
                while i < n and raw[i] != "\n":
                    i += 1
                continue
            if raw.startswith("/*", i):
                j = raw.find("*/", i + 2)
                i = n if j < 0 else j + 2
                out.append(" ")
                continue
            if ch in "\"'":
                q, i, cur = ch, i + 1, []
                while i < n and raw[i] != q:
                    if raw[i] == "\\" and i + 1 < n:
                        cur.append({"n": "\n", "t": "\t", "0": "\0", "r": "\r"}.get(raw[i + 1], raw[i + 1]))
                        i += 2
                    else:
                        cur.append(raw[i])
                        i += 1
                i += 1
                out.append(" STR%d " % len(self.strings))
                self.strings.append("".join(cur))
                continue
            out.append(ch)
            i += 1
        text = "".join(out)
        self.text = "\n".join(l for l in text.split("\n") if not l.lstrip().startswith("#"))

    def string(self, tok):
        m = re.fullmatch(r"STR(\d+)", tok)
        if not m:
            raise Untranslatable("string literal expected, found " + tok[:40])
        return self.strings[int(m.group(1))]


def codes(s):
    return "[" + "; ".join(str(ord(c)) for c in s) + "]%nat"


def cstr(s):
    """a string literal inside a Coq comment"""
    return '"' + s.replace("*)", "* )").replace("(*", "( *") + '"'


def split_top(text, sep):
    """split whitespace-free text at the top-level occurrences of the operator `sep`"""
    out, depth, cur, i = [], 0, [], 0
    while i < len(text):
        ch = text[i]
        if ch in "([{":
            depth += 1
        elif ch in ")]}":
            depth -= 1
        if depth == 0 and text.startswith(sep, i):
            out.append("".join(cur))
            cur = []
            i += len(sep)
            continue
        cur.append(ch)
        i += 1
    out.append("".join(cur))
    return out


def strip_parens(t):
    while t.startswith("(") and t.endswith(")"):
        try:
            inner, j = LG.balanced(t, 0, "(", ")")
        except Untranslatable:
            break
        if j != len(t):
            break
        t = inner
    return t


def signature(src, sig):
    """parameter names of the function whose definition starts with `sig` (`Class::name(`), and its body"""
    i = src.index(sig)
    inner, j = LG.balanced(src, i + len(sig) - 1, "(", ")")
    names = []
    for p in split_args_ws(inner):
        m = re.search(r"(" + IDENT + r")\s*$", p)
        if not m:
            raise Untranslatable("parameter of %s: %s" % (sig, p))
        names.append(m.group(1))
    return names, j


def constructors(src, cls):
    """every `cls::cls(params) : inits {` of the file: (parameter names, {initialised member or base: the constructor parameter
    it is built from})"""
    out = []
    for m in re.finditer(re.escape(cls) + r"\s*::\s*" + re.escape(cls) + r"\s*\(", src):
        inner, j = LG.balanced(src, m.end() - 1, "(", ")")
        params = []
        for p in split_args_ws(inner):
            mm = re.search(r"(" + IDENT + r")\s*$", p)
            if mm:
                params.append(mm.group(1))
        k = src.find("{", j)
        head = src[j:k]
        inits = {}
        if head.strip().startswith(":"):
            for item in split_args_ws(head.strip()[1:]):
                mi = re.match(r"^\s*(" + IDENT + r")\s*\((.*)\)\s*$", item, flags=re.S)
                if not mi:
                    continue
                used = [p for p in params if re.search(r"(?<![\w.>])" + re.escape(p) + r"(?!\w)", mi.group(2))]
                if len(used) == 1:
                    inits[mi.group(1)] = used[0]
        out.append((params, inits))
    return out


def split_args_ws(text):
    out, depth, cur = [], 0, []
    text = text.replace("->", "\x00")
    for ch in text:
        if ch == "\x00":
            cur.append("->")
            continue
        if ch in "([{<":
            depth += 1
        elif ch in ")]}>":
            depth -= 1
        if ch == "," and depth == 0:
            out.append("".join(cur))
            cur = []
        else:
            cur.append(ch)
    if "".join(cur).strip():
        out.append("".join(cur))
    return out


def declaration(text):
    """`T name`, `T name = e`, `T name{e}`, `T name(e)` is not used by these files -> (type, name, initialiser or None);
    None when the statement is not a declaration"""
    t = text.strip()
    depth, eq = 0, -1
    for i, ch in enumerate(t):
        if ch in "(<[{":
            depth += 1
        elif ch in ")>]}":
            depth -= 1
        elif ch == "=" and depth == 0 and t[i:i + 2] != "==" and (i == 0 or t[i - 1] not in "!<>=+-*/|&"):
            eq = i
            break
    init = None
    lhs = t
    if eq >= 0:
        lhs, init = t[:eq].rstrip(), t[eq + 1:].strip()
    elif t.endswith("}"):
        k = t.rfind("{")
        lhs, init = t[:k].rstrip(), t[k + 1:-1].strip()
        if init == "":
            init = None
    m = re.match(r"^(.*?)(" + IDENT + r")$", lhs, flags=re.S)
    if not m:
        return None
    ty = m.group(1).strip()
    if ty == "" or ty.endswith(".") or ty.endswith("->") or ty.endswith("::") or not re.search(r"[\w>&\*]$", ty):
        return None
    if re.fullmatch(r"(return|throw|delete|goto|else|new)", ty):
        return None
    return ty, m.group(2), init


def throw_type(nd):
    if nd[0] != "stmt":
        return None
    m = re.fullmatch(r"throw\s+ParameterException\s*\(\s*ParameterException\s*::\s*Type\s*::\s*(" + IDENT + r")\s*\)", nd[1].strip())
    return m.group(1) if m else None


def throw_chain(nodes):
    """consecutive `if (c) throw E;` / `else if` -> ordered [(condition text, E)]"""
    rules = []
    for nd in LG.without_logs(nodes):
        if nd[0] != "if":
            raise Untranslatable("statement between the tests: " + str(nd)[:60])
        th = LG.without_logs(nd[2])
        if len(th) != 1 or throw_type(th[0]) is None:
            raise Untranslatable("a test that does not just throw a ParameterException")
        rules.append((nd[1], throw_type(th[0])))
        if nd[3]:
            rules += throw_chain(nd[3])
    return rules


def word(name):
    return r"(?<![\w.>])" + re.escape(name) + r"(?!\w)"


def mentions(text, name):
    return re.search(word(name), text) is not None


# ------------------------------------------------------------------------------------------------
# symbolic execution of a key branch

class Env:
    """locals of the factory: `vals` name -> LG.E (a Coq expression over the state before the branch and the converted value),
    `temps` name -> C++ text (a temporary the expression parser cannot type: iterators, uuids)"""
    def __init__(self, vals, temps=None):
        self.vals, self.temps = dict(vals), dict(temps or {})

    def copy(self):
        return Env(self.vals, self.temps)


class Branch:
    """one `if (key == "...")` arm: reads the source text with the loop variable already replaced by KEY / VALUE"""
    def __init__(self, fac, aliases, nodes):
        self.fac, self.aliases, self.nodes = fac, aliases, nodes
        self.kind = None          # 'int' | 'uuid' | 'str' | None (the value is not looked at)
        self.strings = []

    def use(self, kind, depth):
        if kind != "str" and depth > 0 and self.kind != kind:
            raise Untranslatable("the value is converted inside a conditional")
        if self.kind not in (None, kind):
            raise Untranslatable("the value is converted in two ways (%s, %s)" % (self.kind, kind))
        self.kind = kind

    def prepare(self, text, env, depth):
        """C++ expression -> text over atoms"""
        t = flat(text)
        for _ in range(8):
            t2 = t
            for name, d in env.temps.items():
                t2 = re.sub(word(name), d if LG.simple_postfix(d) else "(" + d + ")", t2)
            if t2 == t:
                break
            t = t2
        f = self.fac
        t = re.sub(r"(?:" + IDENT + r"::)*getIntegerValue\(VALUE\)", "PARSED", t)
        if "PARSED" in t:
            if f.int_conv is None:
                raise Untranslatable("getIntegerValue was not read")
            self.use("int", depth)
        if f.uuidgen and mentions(t, f.uuidgen):
            t = re.sub(word(f.uuidgen), "UUIDGEN", t)
        if f.mapparam and mentions(t, f.mapparam):
            t = re.sub(word(f.mapparam), "SCENARIOS", t)
        if "UUIDGEN(VALUE)" in t:
            self.use("uuid", depth)

        def lit(m):
            s = f.src.string(m.group(1) or m.group(2))
            self.use("str", depth)
            if s not in self.strings:
                self.strings.append(s)
            return "VALUEIS%d" % self.strings.index(s)
        t = re.sub(r"VALUE==(STR\d+)|(STR\d+)==VALUE", lit, t)
        return t

    def atoms(self, env):
        a = {"true": ("expr", "true", B, []), "false": ("expr", "false", B, [])}
        a.update(self.fac.const_atoms)
        for name, e in env.vals.items():
            a[name] = ("expr", e.coq, e.ty, [])
        if self.kind == "int":
            a["PARSED"] = ("expr", "v", Z, [])
        if self.kind == "uuid":
            it = "SCENARIOS.find(UUIDGEN(VALUE))"
            a[it + "!=SCENARIOS.end()"] = ("expr", "(gis_some r)", B, [])
            a["SCENARIOS.end()!=" + it] = ("expr", "(gis_some r)", B, [])
            a[it + "==SCENARIOS.end()"] = ("expr", "(negb (gis_some r))", B, [])
            a["SCENARIOS.end()==" + it] = ("expr", "(negb (gis_some r))", B, [])
            a[it + "->second"] = ("expr", "r", S, [])
            a["(*" + it + ").second"] = ("expr", "r", S, [])
        for i, s in enumerate(self.strings):
            a["VALUEIS%d" % i] = ("expr", "(str_eqb v %s)" % codes(s), B, [])
        return a

    def expr(self, text, env, depth, ty=None):
        t = self.prepare(text, env, depth)
        p = LG.Parser(LG.tokenize(t, self.atoms(env)))
        e = p.parse()
        if ty is not None:
            return LG.E(LG.as_type(e, ty), ty)
        if e.lit is not None:
            return LG.E(LG.as_type(e, Z), Z)
        return e

    def run(self, nodes, env, depth, top=False):
        nodes = LG.without_logs(nodes)
        for idx, nd in enumerate(nodes):
            if nd[0] == "continue":
                if top and idx == len(nodes) - 1:
                    continue
                raise Untranslatable("`continue` that is not the last statement of the branch")
            if nd[0] == "stmt":
                self.stmt(nd[1], env, depth)
            elif nd[0] == "if":
                c = self.expr(nd[1], env, depth, B)
                e1, e2 = env.copy(), env.copy()
                self.run(nd[2], e1, depth + 1)
                self.run(nd[3], e2, depth + 1)
                for name in env.vals:
                    a, b = e1.vals[name], e2.vals[name]
                    if a.coq != b.coq:
                        env.vals[name] = LG.E("(if %s then %s else %s)" % (c.coq, a.coq, b.coq), a.ty)
                    else:
                        env.vals[name] = a
            else:
                raise Untranslatable("statement `%s` in a key branch" % nd[0])
        return env

    def stmt(self, text, env, depth):
        d = declaration(text)
        if d is not None:
            ty, name, init = d
            if name in env.vals or name in self.fac.local_names:
                raise Untranslatable("a branch declares %s again" % name)
            if init is None:
                return
            try:
                env.vals[name] = self.expr(init, env, depth)
            except Untranslatable:
                if depth > 0:
                    raise
                t = flat(init)
                for other in list(env.vals):
                    if mentions(t, other):
                        raise
                self.prepare(t, env, depth)      # records a conversion evaluated by this declaration
                env.temps[name] = t
            return
        m = re.match(r"^\s*(" + IDENT + r")\s*=(?!=)(.*)$", text, flags=re.S)
        if m and m.group(1) in env.vals:
            name = m.group(1)
            env.vals[name] = self.expr(m.group(2), env, depth, env.vals[name].ty)
            return
        raise Untranslatable("statement in a key branch: " + flat(text)[:70])


def key_aliases(src, cond):
    """`KEY == "a" || KEY == "b"` -> ["a", "b"]"""
    out = []
    for part in split_top(strip_parens(cond), "||"):
        part = strip_parens(part)
        m = re.fullmatch(r"KEY==(STR\d+)|(STR\d+)==KEY", part)
        if not m:
            raise Untranslatable("a branch of the key chain does not compare the key with a string literal: " + part[:60])
        out.append(src.string(m.group(1) or m.group(2)))
    return out


class Factory:
    """the common structure of the three factories: declarations, one range-for over the key/value list whose body is an
    if / else-if chain on the key, tests that throw, (the call of the common factory), the final constructor call"""
    def __init__(self, src, cls, fn):
        self.src = src
        self.cls = cls
        text = src.text
        sig = cls + "::" + fn + "("
        params, j = signature(text, sig)
        if len(params) != 2:
            raise Untranslatable("%s has %d parameters" % (fn, len(params)))
        self.listparam, self.mapparam = params
        self.body = LG.fn_body(text, sig)
        self.tree = LG.parse_list(self.body)
        self.catch_all = all(flat(c) == "..." for c in re.findall(r"\bcatch\s*\(([^)]*)\)", self.body))
        self.uuidgen = None
        self.int_conv = None
        self.const_atoms = {}
        self.decls = {}           # local -> (type, initialiser)
        self.phases = []          # ('loop', loopvar, [(cond, nodes)]) | ('checks', [(cond, E)]) | ('common', local)
        self.ret = None
        nodes = LG.without_logs(self.tree)
        i = 0
        while i < len(nodes):
            nd = nodes[i]
            if nd[0] == "stmt":
                d = declaration(nd[1])
                if d is None:
                    raise Untranslatable("statement of %s: %s" % (fn, flat(nd[1])[:60]))
                ty, name, init = d
                if init is not None and re.fullmatch(r"(?:CommonParameters::)?createCommonParameter\(\s*%s\s*,\s*%s\s*\)" % (
                        re.escape(self.listparam), re.escape(self.mapparam)), init.strip()):
                    self.phases.append(("common", name))
                else:
                    if "string_generator" in ty:
                        self.uuidgen = name
                    self.decls[name] = (ty, init)
                i += 1
            elif nd[0] == "for":
                m = re.fullmatch(r"(?:const\s+)?auto\s*(?:const\s*)?&{0,2}\s*(" + IDENT + r")\s*:\s*(" + IDENT + r")", nd[1].strip())
                if not m or m.group(2) != self.listparam:
                    raise Untranslatable("loop header: " + flat(nd[1])[:60])
                self.phases.append(("loop", m.group(1), self.key_chain(m.group(1), nd[2])))
                i += 1
            elif nd[0] == "if":
                j = i
                while j < len(nodes) and nodes[j][0] == "if":
                    j += 1
                self.phases.append(("checks", throw_chain(nodes[i:j])))
                i = j
            elif nd[0] == "return":
                if i != len(nodes) - 1:
                    raise Untranslatable("statements after the return")
                self.ret = nd[1]
                i += 1
            else:
                raise Untranslatable("statement `%s` in %s" % (nd[0], fn))
        if self.ret is None:
            raise Untranslatable("no final return in " + fn)
        if sum(1 for p in self.phases if p[0] == "loop") != 1:
            raise Untranslatable("%s does not have exactly one loop over its parameter list" % fn)
        self.local_names = set(self.decls) | set(p[1] for p in self.phases if p[0] == "common")

    def subst_loopvar(self, lv, nodes):
        def sub(t):
            t = re.sub(word(lv) + r"\s*\.\s*first(?!\w)", "KEY", t)
            t = re.sub(word(lv) + r"\s*\.\s*second(?!\w)", "VALUE", t)
            if mentions(t, lv):
                raise Untranslatable("the loop variable is used as a whole")
            return t

        def walk(ns):
            out = []
            for nd in ns:
                if nd[0] == "stmt":
                    out.append(("stmt", sub(nd[1])))
                elif nd[0] == "return":
                    out.append(("return", sub(nd[1])))
                elif nd[0] == "if":
                    out.append(("if", flat(sub(nd[1])), walk(nd[2]), walk(nd[3])))
                elif nd[0] == "try":
                    out.append(("try", walk(nd[1]), [walk(h) for h in nd[2]]))
                elif nd[0] in ("for", "while"):
                    raise Untranslatable("nested loop in the parameter loop")
                else:
                    out.append(nd)
            return out
        return walk(nodes)

    def key_chain(self, lv, body):
        nodes = self.subst_loopvar(lv, LG.without_logs(body))
        if len(nodes) != 1 or nodes[0][0] != "if":
            raise Untranslatable("the body of the parameter loop is not one if / else-if chain")
        out = []
        nd = nodes[0]
        while True:
            out.append((key_aliases(self.src, nd[1]), nd[2]))
            el = LG.without_logs(nd[3])
            if not el:
                break
            if len(el) != 1 or el[0][0] != "if":
                raise Untranslatable("the key chain ends in an unconditional else")
            nd = el[0]
        return out

    def return_locals(self, cls):
        """the local behind each argument of the final `cls(...)`"""
        m = re.match(r"^" + re.escape(cls) + r"\(", self.ret)
        if not m or not self.ret.endswith(")"):
            raise Untranslatable("the factory does not return a %s(...)" % cls)
        args = LG.split_args(self.ret[m.end():-1])
        out = []
        for a in args:
            used = [n for n in self.local_names if mentions(a, n)]
            if len(used) != 1:
                raise Untranslatable("constructor argument %s" % a[:50])
            out.append((used[0], a))
        return out


# ------------------------------------------------------------------------------------------------
# output

class Out:
    def __init__(self):
        self.items = []           # (name or None, text)
        self.report = dict(guards={}, fallback=[])

    def raw(self, text):
        self.items.append((None, text))

    def put(self, name, text, origin="source"):
        self.items.append((name, text + "   (* %s *)" % origin))
        self.report["guards"][name] = origin

    def group(self, what, names, fn):
        """fn() -> {name: definition text}; when it cannot read the source the committed texts are emitted"""
        try:
            vals = fn()
            missing = [n for n in names if n not in vals]
            if missing:
                raise Untranslatable("not produced: " + ", ".join(missing))
            origin = {n: "source" for n in names}
            if isinstance(vals.get("__fallback__"), dict):
                for n, why in vals["__fallback__"].items():
                    self.report["fallback"].append("%s: %s" % (n, why))
                    origin[n] = "fallback"
                    vals[n] = HAND[n]
        except Exception as e:
            self.report["fallback"].append("%s: %s%s" % (what, "" if isinstance(e, Untranslatable) else type(e).__name__ + ": ", e))
            vals = {n: HAND[n] for n in names}
            origin = {n: "fallback" for n in names}
        for n in names:
            self.put(n, vals[n], origin[n])
        return vals


def zlit(v):
    return str(v) if v >= 0 else "(- %d)" % -v


def record(fields, prefix, rec):
    return "{| " + "; ".join("%s%s := %s" % (prefix, f, fields[f]) for f in rec) + " |}"


def nested_if(tests, default):
    """[(test, value)] -> if t1 then v1 else if ..."""
    e = default
    for t, v in reversed(tests):
        e = "if %s then %s\n  else %s" % (t, v, e)
    return e


PRELUDE = """(* GENERATED by tools/gen_param_guards.py from /repo's common_parameters.cpp, route_parameters.cpp, accessibility_parameters.cpp,
   parameters.hpp - do not edit. *)
From Coq Require Import ZArith Bool List.
Import ListNotations.
Local Open Scope Z_scope.
Local Open Scope bool_scope.

Definition MAX_INT : Z := 2147483647.   (* include/toolbox.hpp: std::numeric_limits<int>::max() *)
(* std::string == *)
Fixpoint str_eqb (a b : list nat) : bool :=
  match a, b with
  | [], [] => true
  | x :: r, y :: t => Nat.eqb x y && str_eqb r t
  | _, _ => false
  end.
Definition in_strs (k : list nat) (names : list (list nat)) : bool := existsb (str_eqb k) names.
Definition gis_some {A : Type} (o : option A) : bool := match o with Some _ => true | None => false end.
(* outcome of a factory (or of one round of its loop): a value, a ParameterException of the given type, another exception *)
Inductive gres (A : Type) : Type := GOk (a : A) | GErr (e : nat) | GExn.
Arguments GOk {A} a.
Arguments GErr {A} e.
Arguments GExn {A}.
Definition gbind {A C : Type} (x : gres A) (f : A -> gres C) : gres C :=
  match x with GOk a => f a | GErr e => GErr e | GExn => GExn end.
(* `for (auto & kv : parameters) body` *)
Fixpoint gen_loop {St : Type} (body : list nat -> list nat -> St -> gres St) (q : list (list nat * list nat)) (s : St) : gres St :=
  match q with
  | [] => GOk s
  | (k, v) :: r => gbind (body k v s) (gen_loop body r)
  end.
(* consecutive `if (c) throw ParameterException(E);`: the type of the first test that holds *)
Fixpoint first_throw (rules : list (bool * nat)) : option nat :=
  match rules with [] => None | (c, e) :: r => if c then Some e else first_throw r end.
Definition gcheck {A : Type} (rules : list (bool * nat)) (k : gres A) : gres A :=
  match first_throw rules with Some e => GErr e | None => k end.
(* the locals of createCommonParameter, named after the getter of parameters.hpp that returns the value they end up in *)
Record gcommon := { g_time : Z; g_minw : Z; g_maxtt : Z; g_maxacc : Z; g_maxegr : Z; g_maxtr : Z; g_maxfw : Z;
                    g_fwd : bool; g_scen : option nat }.
(* the locals of createRouteODParameter (has_value of the two optional points, the alternatives flag) and of
   createAccessibilityParameter (has_value of the optional point) *)
Record groute := { r_origin : bool; r_destination : bool; r_alt : bool }.
Record gaccess := { a_place : bool }.
"""


class Translator:
    def __init__(self):
        self.o = Out()
        self.enum = None

    # ---- parameters.hpp ------------------------------------------------------------------------
    def header(self):
        o = self.o
        self.hdr = None
        try:
            self.hdr = Source(F_HDR)
        except OSError as e:
            o.report["fallback"].append("parameters.hpp: %s" % e)
        enum_names = ["E_" + n for n, _ in ENUM_HAND]

        def read_enum():
            if self.hdr is None:
                raise Untranslatable("parameters.hpp not read")
            m = re.search(r"class\s+ParameterException\b.*?enum\s+class\s+Type\s*(?::\s*\w+\s*)?\{([^}]*)\}", self.hdr.text, flags=re.S)
            if not m:
                raise Untranslatable("ParameterException::Type not found")
            vals, nxt = {}, 0
            for item in m.group(1).split(","):
                item = item.strip()
                if not item:
                    continue
                im = re.fullmatch(r"(" + IDENT + r")(?:\s*=\s*(\d+))?", item)
                if not im:
                    raise Untranslatable("enumerator " + item)
                v = int(im.group(2)) if im.group(2) is not None else nxt
                vals[im.group(1)] = v
                nxt = v + 1
            if sorted(vals) != sorted(n for n, _ in ENUM_HAND):
                raise Untranslatable("enumerators of ParameterException::Type: " + " ".join(vals))
            return {"E_" + n: "Definition gen_E_%s : nat := %d%%nat." % (n, v) for n, v in vals.items()}
        o.raw("(* ParameterException::Type (parameters.hpp) *)")
        o.group("ParameterException::Type", enum_names, read_enum)
        self.known_errors = set(n for n, _ in ENUM_HAND)

        # DEFAULT_* constants and the getters
        self.consts = {}
        self.getter_member = {}
        if self.hdr is not None:
            for m in re.finditer(r"\b(DEFAULT_\w+)\s*=\s*([^;]+);", self.hdr.text):
                rhs = flat(m.group(2))
                try:
                    if rhs == "MAX_INT":
                        self.consts[m.group(1)] = "MAX_INT"
                    elif re.fullmatch(r"[0-9\*\+\-\(\)]+", rhs):
                        self.consts[m.group(1)] = zlit(int(eval(rhs)))
                except Exception:
                    pass
            for m in re.finditer(r"\b(" + IDENT + r")\s*\(\s*\)\s*(?:const\s*)?\{\s*return\s+(" + IDENT + r")\s*;", self.hdr.text):
                self.getter_member.setdefault(m.group(1), m.group(2))

    def const_atoms(self):
        a = {"MAX_INT": ("expr", "MAX_INT", Z, [])}
        for k, v in self.consts.items():
            a[k] = ("expr", v, Z, [])
        return a

    # ---- getIntegerValue -----------------------------------------------------------------------
    def int_conversion(self, src):
        """-> error type when the body is `try { return std::stoi(arg); } catch (...) { throw ParameterException(E); }`"""
        sig = "CommonParameters::getIntegerValue("
        params, _ = signature(src.text, sig)
        if len(params) != 1:
            raise Untranslatable("getIntegerValue has %d parameters" % len(params))
        body = LG.fn_body(src.text, sig)
        tree = LG.without_logs(LG.parse_list(body))
        if len(tree) != 1 or tree[0][0] != "try":
            raise Untranslatable("getIntegerValue is not one try block")
        inner = LG.without_logs(tree[0][1])
        if len(inner) != 1 or inner[0][0] != "return" or inner[0][1] != "std::stoi(%s)" % params[0]:
            raise Untranslatable("getIntegerValue does not return std::stoi of its argument")
        if [flat(c) for c in re.findall(r"\bcatch\s*\(([^)]*)\)", body)] != ["..."] or len(tree[0][2]) != 1:
            raise Untranslatable("getIntegerValue does not have exactly one catch-all handler")
        h = LG.without_logs(tree[0][2][0])
        if len(h) != 1 or throw_type(h[0]) is None:
            raise Untranslatable("the handler of getIntegerValue does not just throw a ParameterException")
        return throw_type(h[0])

    def err(self, name):
        if name not in self.known_errors:
            raise Untranslatable("unknown ParameterException type " + name)
        return "gen_E_" + name

    # ---- createCommonParameter -----------------------------------------------------------------
    def common(self):
        o = self.o
        names_conv = ["int_conversion_is_stoi", "int_conversion_error"]
        names_def = ["default_" + FNAME[f] for f in FIELDS if FTYPE[f] == Z] + ["default_forward", "default_scenario", "common_init"]
        key_names = ["key_" + FNAME[f] for f in FIELDS]
        step_names = []
        for f in FIELDS:
            if FTYPE[f] == Z:
                step_names += ["upd_" + FNAME[f], "norm_" + FNAME[f]]
            step_names.append("step_" + FNAME[f])
        fac = [None]
        src = [None]
        local_of = {}

        def load():
            if src[0] is None:
                src[0] = Source(F_COMMON)
            return src[0]

        def conv():
            e = self.int_conversion(load())
            return {"int_conversion_is_stoi": "Definition gen_int_conversion_is_stoi : bool := true.",
                    "int_conversion_error": "Definition gen_int_conversion_error : nat := %s." % self.err(e)}
        o.raw("\n(* CommonParameters::getIntegerValue: std::stoi, every exception -> this ParameterException type *)")
        cv = o.group("getIntegerValue", names_conv, conv)
        conv_ok = o.report["guards"]["int_conversion_error"] == "source"

        def factory():
            """reads the structure and finds the local behind every getter"""
            if fac[0] is not None:
                return fac[0]
            f = Factory(load(), "CommonParameters", "createCommonParameter")
            f.const_atoms = self.const_atoms()
            f.int_conv = True if conv_ok else None
            ret = f.return_locals("CommonParameters")
            ctor = [c for c in constructors(load().text, "CommonParameters") if len(c[0]) == len(ret)]
            if len(ctor) != 1:
                raise Untranslatable("%d constructors of CommonParameters take %d arguments" % (len(ctor), len(ret)))
            params, inits = ctor[0]
            member_param = inits
            for getter, field, ty, _ in SLOTS:
                member = self.getter_member.get(getter)
                if member is None or member not in member_param:
                    raise Untranslatable("the member behind %s() is not initialised from a constructor parameter" % getter)
                pos = params.index(member_param[member])
                local, arg = ret[pos]
                if ty == S:
                    if not re.fullmatch(re.escape(local) + r"\.value\(\)(\.get\(\))?|\*" + re.escape(local) + r"|" + re.escape(local) + r"->get\(\)", arg):
                        raise Untranslatable("scenario argument " + arg)
                elif arg != local:
                    raise Untranslatable("constructor argument %s is not a plain local" % arg)
                if local in local_of.values():
                    raise Untranslatable("local %s feeds two constructor parameters" % local)
                local_of[field] = local
            if [p[0] for p in f.phases] not in (["loop", "checks"], ["loop"]):
                raise Untranslatable("createCommonParameter is not: loop, tests, return (%s)" % " ".join(p[0] for p in f.phases))
            fac[0] = f
            return f

        def start_env(f):
            vals = {}
            for fld in FIELDS:
                vals[local_of[fld]] = LG.E("(g_%s s)" % fld, FTYPE[fld])
            return Env(vals)

        def defaults():
            f = factory()
            out, vals = {}, {}
            for fld in FIELDS:
                ty, init = f.decls[local_of[fld]]
                if FTYPE[fld] == S:
                    if init is not None or "optional" not in ty:
                        raise Untranslatable("the scenario local is not an empty std::optional")
                    vals[fld] = "None"
                    out["default_scenario"] = "Definition gen_default_scenario : option nat := None."
                    continue
                if init is None:
                    raise Untranslatable("%s has no initial value" % local_of[fld])
                atoms = {"true": ("expr", "true", B, []), "false": ("expr", "false", B, [])}
                atoms.update(f.const_atoms)
                p = LG.Parser(LG.tokenize(flat(init), atoms))
                coq = LG.as_type(p.parse(), FTYPE[fld])
                if FTYPE[fld] == B:
                    out["default_forward"] = "Definition gen_default_forward : bool := %s." % coq
                    vals[fld] = "gen_default_forward"
                else:
                    out["default_" + FNAME[fld]] = "Definition gen_default_%s : Z := %s.   (* %s *)" % (FNAME[fld], coq, flat(init))
                    vals[fld] = "gen_default_" + FNAME[fld]
            vals["scen"] = "gen_default_scenario"
            out["common_init"] = "Definition gen_common_init : gcommon :=\n  %s." % record(vals, "g_", FIELDS)
            return out
        o.raw("\n(* createCommonParameter: the value every local starts with *)")
        o.group("createCommonParameter/initial values", names_def, defaults)

        # ---- the key branches
        branches = []         # (aliases, name or None, body expression)
        chain_ok = [False]

        def steps():
            f = factory()
            loop = [p for p in f.phases if p[0] == "loop"][0]
            out, fb = {}, {}
            field_of_name = {FNAME[fl]: fl for fl in FIELDS}
            alias_names = set(a for aliases, _ in loop[2] for a in aliases if a in field_of_name)
            used = {}                 # fragment name -> aliases of the branch that carries it
            BODY = {Z: "match stoi v with Some x => GOk (gen_step_%s s x) | None => GErr gen_int_conversion_error end",
                    S: "match resolve v with Some r => GOk (gen_step_%s s r) | None => GExn end",
                    B: "GOk (gen_step_%s s v)"}
            for aliases, nodes in loop[2]:
                br = Branch(f, aliases, nodes)
                env0 = start_env(f)
                # the fragments are named after the key (when it is one the model knows), else after the local written
                name = next((a for a in aliases if a in field_of_name and a not in used), None)
                try:
                    env = br.run(nodes, env0.copy(), 0, top=True)
                    val = {fl: env.vals[local_of[fl]].coq for fl in FIELDS}
                    changed = [fl for fl in FIELDS if val[fl] != env0.vals[local_of[fl]].coq]
                    if name is None:
                        if not changed and br.kind in (None, "str"):
                            branches.append((aliases, None, "GOk s"))
                            continue
                        cands = [FNAME[fl] for fl in changed if FNAME[fl] not in alias_names and FNAME[fl] not in used]
                        if len(changed) != 1 or len(cands) != 1:
                            raise Untranslatable("a key the model does not have, writing %s" % (", ".join(changed) or "nothing"))
                        name = cands[0]
                    fld = field_of_name[name]
                    used[name] = aliases
                    want = {Z: ("int",), S: ("uuid",), B: (None, "str")}[FTYPE[fld]]
                    if br.kind is not None and br.kind not in want:
                        raise Untranslatable("a %s conversion in the branch of %s" % (br.kind, name))
                    flds = {x: (val[x][1:-1] if val[x] == "(g_%s s)" % x else val[x]) for x in FIELDS}
                    if FTYPE[fld] == Z:
                        others = [x for x in FIELDS if x != fld and "(g_%s s)" % x in val[fld]]
                        if others:
                            raise Untranslatable("the value written depends on " + ", ".join(others))
                        upd = val[fld].replace("(g_%s s)" % fld, "old")
                        out["upd_" + name] = "Definition gen_upd_%s (old v : Z) : Z :=\n  %s." % (name, upd)
                        if re.search(r"\bold\b", upd):
                            out["norm_" + name] = ("Definition gen_norm_%s (v : Z) : Z :=\n  gen_upd_%s v v."
                                                   "   (* NOT an unconditional assignment: the previous value matters *)" % (name, name))
                        else:
                            out["norm_" + name] = "Definition gen_norm_%s (v : Z) : Z :=\n  %s." % (name, upd)
                        flds[fld] = "gen_upd_%s (g_%s s) v" % (name, fld)
                        arg = "(v : Z)"
                    elif FTYPE[fld] == S:
                        arg = "(r : option nat)"
                    else:
                        arg = "(v : list nat)"
                    lits = "  (* value compared with %s *)" % ", ".join(cstr(x) for x in br.strings) if br.strings else ""
                    out["step_" + name] = "Definition gen_step_%s (s : gcommon) %s : gcommon :=\n  %s.%s" % (name, arg, record(flds, "g_", FIELDS), lits)
                    if br.kind is None and FTYPE[fld] != B:
                        # the value is not converted at all: nothing can fail, nothing is read
                        body = "GOk (gen_step_%s s %s)" % (name, "0" if FTYPE[fld] == Z else "None")
                    else:
                        body = BODY[FTYPE[fld]] % name
                    branches.append((aliases, name, body))
                except Untranslatable as e:
                    # the branch of a known key falls back alone; an unknown key makes the whole chain fall back
                    if name is None:
                        raise Untranslatable("branch %s: %s" % ("/".join(aliases), e))
                    fld = field_of_name[name]
                    used[name] = aliases
                    for n in (["upd_" + name, "norm_" + name] if FTYPE[fld] == Z else []) + ["step_" + name]:
                        fb[n] = str(e)
                        out[n] = HAND[n]
                    branches.append((aliases, name, BODY[FTYPE[fld]] % name))
            for fld in FIELDS:
                name = FNAME[fld]
                if name in used:
                    al = used[name]
                    out["key_" + name] = "Definition gen_key_%s : list (list nat) :=\n  [%s]%%nat.   (* %s *)" % (
                        name, "; ".join(codes(a)[:-4] for a in al), ", ".join(cstr(a) for a in al))
                else:
                    # no branch for this parameter any more: no string is accepted for it; its (unused) effect keeps the committed text
                    out["key_" + name] = "Definition gen_key_%s : list (list nat) :=\n  [].   (* no branch of the key chain writes the value behind %s() *)" % (
                        name, [g for g, fl, _, _ in SLOTS if fl == fld][0])
                    for n in (["upd_" + name, "norm_" + name] if FTYPE[fld] == Z else []) + ["step_" + name]:
                        out[n] = HAND[n] + "   (* unused *)"
            out["__fallback__"] = fb
            chain_ok[0] = True
            return out
        o.raw("\n(* createCommonParameter: per key, the strings accepted and the effect of the branch on the locals *)")
        o.group("createCommonParameter/key branches", key_names + step_names, steps)

        def body():
            if not chain_ok[0]:
                raise Untranslatable("the key chain was not read")
            tests = []
            for aliases, name, b in branches:
                t = "in_strs k gen_key_%s" % name if name else "in_strs k [%s]%%nat" % "; ".join(codes(a)[:-4] for a in aliases)
                tests.append((t, b))
            return {"common_body": "Definition gen_common_body (stoi : list nat -> option Z) (resolve : list nat -> option (option nat))\n"
                                   "    (k v : list nat) (s : gcommon) : gres gcommon :=\n  %s." % nested_if(tests, "GOk s")}
        o.raw("\n(* createCommonParameter: one round of the loop (the if / else-if chain on the key, in source order) *)")
        o.group("createCommonParameter/loop body", ["common_body"], body)

        def checks():
            f = factory()
            rules = [r for p in f.phases if p[0] == "checks" for r in p[1]]
            sc = local_of["scen"]
            atoms = dict(f.const_atoms)
            for fld in FIELDS:
                if FTYPE[fld] in (Z, B):
                    atoms[local_of[fld]] = ("expr", "(g_%s s)" % fld, FTYPE[fld], [])
            atoms[sc + ".has_value()"] = ("expr", "(gis_some (g_scen s))", B, [])
            for acc in (".value().get()", ".value()", "->get()"):
                atoms[sc + acc + ".servicesList.size()"] = ("expr", "n_services", N, [])
                atoms[sc + acc + ".servicesList.empty()"] = ("expr", "(Nat.eqb n_services 0%nat)", B, [])
            out = []
            for cond, e in rules:
                p = LG.Parser(LG.tokenize(flat(cond), atoms))
                out.append("(%s, %s)" % (LG.as_type(p.parse(), B), self.err(e)))
            expr = self.compose(f, "GOk s", {
                "loop": lambda ph, e: "gbind (gen_loop (gen_common_body stoi resolve) q gen_common_init) (fun s =>\n  %s)" % e,
                "checks": lambda ph, e: "gcheck (gen_common_check_rules s (match g_scen s with Some sid => services_of sid | None => 0%%nat end)) (\n  %s)" % e})
            return {"common_check_rules": "Definition gen_common_check_rules (s : gcommon) (n_services : nat) : list (bool * nat) :=\n  [ %s ]." % ";\n    ".join(out) if out else
                    "Definition gen_common_check_rules (s : gcommon) (n_services : nat) : list (bool * nat) :=\n  [].   (* no test between the loop and the constructor call *)",
                    "create_common": ("Definition gen_create_common (stoi : list nat -> option Z) (resolve : list nat -> option (option nat)) (services_of : nat -> nat)\n"
                                      "    (q : list (list nat * list nat)) : gres gcommon :=\n  %s.   (* phases in source order: %s *)" % (expr, ", ".join(p[0] for p in f.phases)))}
        o.raw("\n(* createCommonParameter: the tests between the loop and the constructor call, in source order; n_services is the\n"
              "   servicesList.size() of the scenario found (only looked at behind the has_value test) *)")
        o.group("createCommonParameter/tests", ["common_check_rules", "create_common"], checks)

    # ---- the two factories with a point --------------------------------------------------------
    def point_branch(self, f, nodes, locals_, tag):
        """`try { boost::split(parts, VALUE, boost::is_any_of(S)); if (parts.size() != 2) throw ..; local = Point(std::stod(parts[i]),
        std::stod(parts[j])); } catch (...) { throw E; }` -> (separators, count test over n, indices, E)"""
        nodes = LG.without_logs(nodes)
        if nodes and nodes[-1] == ("continue",):
            nodes = nodes[:-1]
        if len(nodes) != 1 or nodes[0][0] != "try":
            raise Untranslatable("the %s branch is not one try block" % tag)
        if not f.catch_all or len(nodes[0][2]) != 1:
            raise Untranslatable("the %s branch does not have exactly one catch-all handler" % tag)
        h = LG.without_logs(nodes[0][2][0])
        if len(h) != 1 or throw_type(h[0]) is None:
            raise Untranslatable("the handler of the %s branch does not just throw a ParameterException" % tag)
        err = throw_type(h[0])
        parts, seps, bad, idx, target = None, None, [], None, None
        for nd in LG.without_logs(nodes[0][1]):
            if nd[0] == "stmt":
                t = flat(nd[1])
                m = re.fullmatch(r"boost::split\((" + IDENT + r"),VALUE,boost::is_any_of\((STR\d+)\)\)", t)
                if m:
                    if parts is not None or idx is not None:
                        raise Untranslatable("the value is split twice")
                    parts, seps = m.group(1), f.src.string(m.group(2))
                    continue
                m = re.fullmatch(r"(" + IDENT + r")=Point\((.*)\)", t)
                if m and parts is not None and idx is None and m.group(1) in locals_:
                    idx, target = [], m.group(1)
                    for a in LG.split_args(m.group(2)):
                        ma = re.fullmatch(r"std::stod\(" + re.escape(parts) + r"\[(\d+)\]\)", a)
                        if not ma:
                            raise Untranslatable("argument of Point: " + a)
                        idx.append(int(ma.group(1)))
                    continue
                raise Untranslatable("statement of the %s branch: %s" % (tag, t[:60]))
            if nd[0] == "if" and parts is not None and idx is None and not nd[3]:
                th = LG.without_logs(nd[2])
                if len(th) == 1 and throw_type(th[0]) is not None:
                    atoms = {parts + ".size()": ("expr", "n", N, [])}
                    p = LG.Parser(LG.tokenize(flat(nd[1]), atoms))
                    bad.append(LG.as_type(p.parse(), B))
                    continue
            raise Untranslatable("statement `%s` in the %s branch" % (nd[0], tag))
        if parts is None or idx is None:
            raise Untranslatable("the %s branch does not split the value and build a Point" % tag)
        return target, (seps, LG.disj(bad), idx, err)

    def point_defs(self, tag, seps, bad, idx, err):
        return {
            tag + "_separators": "Definition gen_%s_separators : list nat := %s.   (* boost::is_any_of(%s) *)" % (tag, codes(seps), cstr(seps)),
            tag + "_count_bad": "Definition gen_%s_count_bad (n : nat) : bool :=\n  %s." % (tag, bad),
            tag + "_stod_indices": "Definition gen_%s_stod_indices : list nat := [%s]%%nat.   (* Point(latitude, longitude) *)" % (tag, "; ".join(str(i) for i in idx)),
            tag + "_invalid_error": "Definition gen_%s_invalid_error : nat := %s.   (* every exception inside the try block, the explicit throw included *)" % (tag, self.err(err)),
            tag + "_point_ok": ("Definition gen_%s_point_ok (stod_ok : list nat -> bool) (parts : list (list nat)) : bool :=\n"
                                "  negb (gen_%s_count_bad (length parts)) && forallb (fun i => stod_ok (nth i parts [])) gen_%s_stod_indices." % (tag, tag, tag)),
        }

    def compose(self, f, result, bind):
        """the phases of a factory in source order -> nested gbind / gcheck"""
        e = result
        for ph in reversed(f.phases):
            e = bind[ph[0]](ph, e)
        return e

    def route(self):
        o = self.o
        POINT = ["_separators", "_count_bad", "_stod_indices", "_invalid_error", "_point_ok"]
        names = ["key_origin", "key_destination", "key_alternatives"] + ["origin" + x for x in POINT] + ["destination" + x for x in POINT] + \
                ["step_alternatives", "route_init", "route_body", "route_check_rules", "create_route"]

        def gen():
            src = Source(F_ROUTE)
            f = Factory(src, "RouteParameters", "createRouteODParameter")
            f.const_atoms = self.const_atoms()
            ret = f.return_locals("RouteParameters")
            ctor = [c for c in constructors(src.text, "RouteParameters") if len(c[0]) == len(ret)]
            if len(ctor) != 1:
                raise Untranslatable("%d constructors of RouteParameters take %d arguments" % (len(ctor), len(ret)))
            params, inits = ctor[0]
            loc = {}
            for member, role in (("origin", "origin"), ("destination", "destination"), ("withAlternatives", "alt"), ("CommonParameters", "common")):
                if member not in inits:
                    raise Untranslatable("%s is not initialised from a constructor parameter" % member)
                loc[role] = ret[params.index(inits[member])][0]
            if len(set(loc.values())) != 4:
                raise Untranslatable("one local feeds two constructor parameters")
            commons = [p for p in f.phases if p[0] == "common"]
            if len(commons) != 1 or commons[0][1] != loc["common"]:
                raise Untranslatable("the common parameters passed on are not those of the one call of createCommonParameter")
            if ret[params.index(inits["withAlternatives"])][1] != loc["alt"]:
                raise Untranslatable("the alternatives argument is not a plain local")
            out = {}
            init = {}
            for role in ("origin", "destination"):
                ty, i0 = f.decls[loc[role]]
                if i0 is not None or "optional" not in ty:
                    raise Untranslatable("%s is not an empty std::optional" % loc[role])
                init[role] = "false"
            ty, i0 = f.decls[loc["alt"]]
            if i0 is None or flat(i0) not in ("true", "false"):
                raise Untranslatable("initial value of " + loc["alt"])
            init["alt"] = flat(i0)
            out["route_init"] = "Definition gen_route_init : groute :=\n  {| r_origin := %s; r_destination := %s; r_alt := %s |}." % (init["origin"], init["destination"], init["alt"])
            loop = [p for p in f.phases if p[0] == "loop"][0]
            tests, used = [], {}
            NAMES = ("origin", "destination", "alternatives")
            role_of = {loc["origin"]: "origin", loc["destination"]: "destination"}
            alias_names = set(a for aliases, _ in loop[2] for a in aliases if a in NAMES)
            for aliases, nodes in loop[2]:
                name = next((a for a in aliases if a in NAMES and a not in used), None)
                keydef = "Definition gen_key_%%s : list (list nat) :=\n  [%s]%%%%nat.   (* %s *)" % (
                    "; ".join(codes(a)[:-4] for a in aliases), ", ".join(cstr(a) for a in aliases))
                if any(nd[0] == "try" for nd in LG.without_logs(nodes)):
                    target, rule = self.point_branch(f, nodes, role_of, "/".join(aliases))
                    role = role_of[target]
                    if name is None and role not in alias_names and role not in used:
                        name = role
                    if name not in ("origin", "destination"):
                        raise Untranslatable("branch %s builds a Point" % "/".join(aliases))
                    used[name] = aliases
                    out.update(self.point_defs(name, *rule))
                    out["key_" + name] = keydef % name
                    st2 = dict(origin="r_origin st", destination="r_destination st", alt="r_alt st")
                    st2[role] = "true"
                    tests.append(("in_strs k gen_key_%s" % name,
                                  "(if gen_%s_point_ok stod_ok (split gen_%s_separators v)\n        then GOk {| r_origin := %s; r_destination := %s; r_alt := %s |}\n        else GErr gen_%s_invalid_error)" % (
                                      name, name, st2["origin"], st2["destination"], st2["alt"], name)))
                    continue
                br = Branch(f, aliases, nodes)
                env = br.run(nodes, Env({loc["alt"]: LG.E("(r_alt st)", B)}), 0, top=True)
                if br.kind not in (None, "str"):
                    raise Untranslatable("branch %s converts the value (%s)" % ("/".join(aliases), br.kind))
                val = env.vals[loc["alt"]].coq
                if name is None:
                    if val == "(r_alt st)":
                        tests.append(("in_strs k [%s]%%nat" % "; ".join(codes(a)[:-4] for a in aliases), "GOk st"))
                        continue
                    if "alternatives" in alias_names or "alternatives" in used:
                        raise Untranslatable("two branches write the alternatives flag")
                    name = "alternatives"
                if name != "alternatives":
                    raise Untranslatable("the branch of %s builds no Point" % name)
                used[name] = aliases
                out["step_alternatives"] = ("Definition gen_step_alternatives (st : groute) (v : list nat) : groute :=\n"
                                            "  {| r_origin := r_origin st; r_destination := r_destination st; r_alt := %s |}.%s" % (
                                                val, "  (* value compared with %s *)" % ", ".join(cstr(x) for x in br.strings) if br.strings else ""))
                out["key_alternatives"] = keydef % "alternatives"
                tests.append(("in_strs k gen_key_alternatives", "GOk (gen_step_alternatives st v)"))
            for name in NAMES:
                if name not in used:
                    # no branch for this parameter any more: no string is accepted for it; the unused fragments keep the committed text
                    out["key_" + name] = "Definition gen_key_%s : list (list nat) :=\n  [].   (* no branch of the key chain *)" % name
                    for n in names:
                        if n not in out and (n.startswith(name + "_") or n == "step_" + name):
                            out[n] = HAND[n] + "   (* unused *)"
            out["route_body"] = ("Definition gen_route_body (split : list nat -> list nat -> list (list nat)) (stod_ok : list nat -> bool)\n"
                                 "    (k v : list nat) (st : groute) : gres groute :=\n  %s." % nested_if(tests, "GOk st"))
            atoms = {loc["origin"] + ".has_value()": ("expr", "(r_origin st)", B, []),
                     loc["destination"] + ".has_value()": ("expr", "(r_destination st)", B, []),
                     loc["alt"]: ("expr", "(r_alt st)", B, [])}
            rules = []
            for ph in f.phases:
                if ph[0] == "checks":
                    for cond, e in ph[1]:
                        p = LG.Parser(LG.tokenize(flat(cond), atoms))
                        rules.append((LG.as_type(p.parse(), B), self.err(e)))
            # one rule list per block of tests, numbered in source order
            blocks = [ph for ph in f.phases if ph[0] == "checks"]
            if len(blocks) > 1:
                raise Untranslatable("%d blocks of tests in createRouteODParameter" % len(blocks))
            out["route_check_rules"] = ("Definition gen_route_check_rules (st : groute) : list (bool * nat) :=\n  [ %s ]." % ";\n    ".join("(%s, %s)" % r for r in rules)) if rules else \
                "Definition gen_route_check_rules (st : groute) : list (bool * nat) :=\n  [].   (* no missing-parameter test *)"
            order = [p[0] for p in f.phases]
            if "checks" in order and order.index("loop") > order.index("checks"):
                raise Untranslatable("the tests come before the loop")
            expr = self.compose(f, "GOk (c, r_alt st)", {
                "loop": lambda ph, e: "gbind (gen_loop (gen_route_body split stod_ok) q gen_route_init) (fun st =>\n  %s)" % e,
                "checks": lambda ph, e: "gcheck (gen_route_check_rules st) (\n  %s)" % e,
                "common": lambda ph, e: "gbind (gen_create_common stoi resolve services_of q) (fun c =>\n  %s)" % e})
            if order.index("common") < order.index("loop"):
                raise Untranslatable("the common factory is called before the loop")
            out["create_route"] = ("Definition gen_create_route (split : list nat -> list nat -> list (list nat)) (stod_ok : list nat -> bool)\n"
                                   "    (stoi : list nat -> option Z) (resolve : list nat -> option (option nat)) (services_of : nat -> nat)\n"
                                   "    (q : list (list nat * list nat)) : gres (gcommon * bool) :=\n  %s.   (* phases in source order: %s *)" % (expr, ", ".join(order)))
            return out
        o.raw("\n(* RouteParameters::createRouteODParameter *)")
        o.group("createRouteODParameter", names, gen)

    def access(self):
        o = self.o
        POINT = ["_separators", "_count_bad", "_stod_indices", "_invalid_error", "_point_ok"]
        names = ["key_place"] + ["place" + x for x in POINT] + ["access_init", "access_body", "access_check_rules", "create_access"]

        def gen():
            src = Source(F_ACCESS)
            f = Factory(src, "AccessibilityParameters", "createAccessibilityParameter")
            f.const_atoms = self.const_atoms()
            ret = f.return_locals("AccessibilityParameters")
            ctor = [c for c in constructors(src.text, "AccessibilityParameters") if len(c[0]) == len(ret)]
            if len(ctor) != 1:
                raise Untranslatable("%d constructors of AccessibilityParameters take %d arguments" % (len(ctor), len(ret)))
            params, inits = ctor[0]
            loc = {}
            for member, role in (("place", "place"), ("CommonParameters", "common")):
                if member not in inits:
                    raise Untranslatable("%s is not initialised from a constructor parameter" % member)
                loc[role] = ret[params.index(inits[member])][0]
            commons = [p for p in f.phases if p[0] == "common"]
            if len(commons) != 1 or commons[0][1] != loc["common"] or loc["place"] == loc["common"]:
                raise Untranslatable("the common parameters passed on are not those of the one call of createCommonParameter")
            ty, i0 = f.decls[loc["place"]]
            if i0 is not None or "optional" not in ty:
                raise Untranslatable("%s is not an empty std::optional" % loc["place"])
            out = {"access_init": "Definition gen_access_init : gaccess :=\n  {| a_place := false |}."}
            loop = [p for p in f.phases if p[0] == "loop"][0]
            tests, seen = [], False
            for aliases, nodes in loop[2]:
                if not re.search(r"(?<![\w.>])" + re.escape(loc["place"]) + r"\s*=(?!=)", json.dumps(nodes)):
                    tests.append(("in_strs k [%s]%%nat" % "; ".join(codes(a)[:-4] for a in aliases), "GOk st"))
                    continue
                if seen:
                    raise Untranslatable("two branches write the place")
                seen = True
                target, rule = self.point_branch(f, nodes, {loc["place"]: "place"}, "place")
                out.update(self.point_defs("place", *rule))
                out["key_place"] = "Definition gen_key_place : list (list nat) :=\n  [%s]%%nat.   (* %s *)" % (
                    "; ".join(codes(a)[:-4] for a in aliases), ", ".join(cstr(a) for a in aliases))
                tests.append(("in_strs k gen_key_place",
                              "(if gen_place_point_ok stod_ok (split gen_place_separators v)\n        then GOk {| a_place := true |}\n        else GErr gen_place_invalid_error)"))
            if not seen:
                out["key_place"] = "Definition gen_key_place : list (list nat) :=\n  [].   (* no branch of the key chain *)"
                for n in names:
                    if n.startswith("place_"):
                        out[n] = HAND[n] + "   (* unused *)"
            out["access_body"] = ("Definition gen_access_body (split : list nat -> list nat -> list (list nat)) (stod_ok : list nat -> bool)\n"
                                  "    (k v : list nat) (st : gaccess) : gres gaccess :=\n  %s." % nested_if(tests, "GOk st"))
            atoms = {loc["place"] + ".has_value()": ("expr", "(a_place st)", B, [])}
            blocks = [ph for ph in f.phases if ph[0] == "checks"]
            if len(blocks) > 1:
                raise Untranslatable("%d blocks of tests in createAccessibilityParameter" % len(blocks))
            rules = []
            for cond, e in (blocks[0][1] if blocks else []):
                p = LG.Parser(LG.tokenize(flat(cond), atoms))
                rules.append((LG.as_type(p.parse(), B), self.err(e)))
            out["access_check_rules"] = ("Definition gen_access_check_rules (st : gaccess) : list (bool * nat) :=\n  [ %s ]." % ";\n    ".join("(%s, %s)" % r for r in rules)) if rules else \
                "Definition gen_access_check_rules (st : gaccess) : list (bool * nat) :=\n  [].   (* no missing-parameter test *)"
            order = [p[0] for p in f.phases]
            if "checks" in order and order.index("loop") > order.index("checks") or order.index("common") < order.index("loop"):
                raise Untranslatable("the loop is not the first phase")
            expr = self.compose(f, "GOk c", {
                "loop": lambda ph, e: "gbind (gen_loop (gen_access_body split stod_ok) q gen_access_init) (fun st =>\n  %s)" % e,
                "checks": lambda ph, e: "gcheck (gen_access_check_rules st) (\n  %s)" % e,
                "common": lambda ph, e: "gbind (gen_create_common stoi resolve services_of q) (fun c =>\n  %s)" % e})
            out["create_access"] = ("Definition gen_create_access (split : list nat -> list nat -> list (list nat)) (stod_ok : list nat -> bool)\n"
                                    "    (stoi : list nat -> option Z) (resolve : list nat -> option (option nat)) (services_of : nat -> nat)\n"
                                    "    (q : list (list nat * list nat)) : gres gcommon :=\n  %s.   (* phases in source order: %s *)" % (expr, ", ".join(order)))
            return out
        o.raw("\n(* AccessibilityParameters::createAccessibilityParameter *)")
        o.group("createAccessibilityParameter", names, gen)


# the committed hand-written definitions (what the translator read from the tree the framework was validated on)
HAND = {}


def load_hand():
    p = os.path.join(HERE, "param_guards_hand.json")
    if os.path.exists(p):
        HAND.update(json.load(open(p)))


def driver_keys():
    """the differential driver (ocaml/driver.ml, hand-written) maps key strings to the model's `key`; Proofs/ParamGuardsTie.v
    states the strings in `key_name`: the two tables must agree"""
    try:
        drv = open(os.path.join(VERIF, "ocaml", "driver.ml")).read()
        m = re.search(r"let key_of = function(.*?)\|\s*_\s*->\s*KOther", drv, flags=re.S)
        a = dict((k, s) for s, k in re.findall(r'"([^"]*)"\s*->\s*(K\w+)', m.group(1)))
        tie = open(os.path.join(VERIF, "coq", "Proofs", "ParamGuardsTie.v")).read()
        m = re.search(r"Definition key_name \(k : key\) : str :=(.*?)end\.", tie, flags=re.S)
        b = dict(re.findall(r'\|\s*(K\w+)\s*=>\s*codes_of\s*"([^"]*)"', m.group(1)))
        b.pop("KOther", None)
        return "agree" if a == b else "DIFFER: driver.ml %s / ParamGuardsTie.v %s" % (sorted(a.items()), sorted(b.items()))
    except Exception as e:
        return "not compared (%s)" % e


def regenerate():
    load_hand()
    t = Translator()
    t.o.raw(PRELUDE)
    t.header()
    t.common()
    t.route()
    t.access()
    text = "\n".join(x for _, x in t.o.items) + "\n"
    os.makedirs(os.path.dirname(OUT), exist_ok=True)
    old = open(OUT).read() if os.path.exists(OUT) else None
    if old != text:
        with open(OUT, "w") as f:
            f.write(text)
    rep = t.o.report
    rep["changed"] = old != text
    rep["from_source"] = sum(1 for v in rep["guards"].values() if v == "source")
    rep["total"] = len(rep["guards"])
    rep["driver_key_table"] = driver_keys()
    return rep


if __name__ == "__main__":
    if len(sys.argv) > 1 and sys.argv[1] == "--write-hand":
        # maintenance: store what the translator reads NOW as the committed fallback texts (run on the validated tree only)
        load_hand()
        t = Translator()
        t.o.raw(PRELUDE)
        t.header(); t.common(); t.route(); t.access()
        bad = [n for n, v in t.o.report["guards"].items() if v != "source"]
        if bad:
            sys.exit("not everything was read from the source: " + ", ".join(bad))
        hand = {n: re.sub(r"   \(\* source \*\)$", "", x) for n, x in t.o.items if n}
        json.dump(hand, open(os.path.join(HERE, "param_guards_hand.json"), "w"), indent=1, sort_keys=True)
        print("stored %d definitions" % len(hand))
    else:
        print(json.dumps(regenerate(), indent=1))
