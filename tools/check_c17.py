#!/usr/bin/env python3
"""C17: missing, truncated, corrupt or inconsistent cache files never crash the server.
Proof (decoded level): Loader.v theorems.  Search: fault enumeration on the real binary — every
single-file deletion, empty file, truncation offsets, single-bit flips, zeroed ranges, and the
cross-file inconsistencies of the property's list — start-up, a request on every endpoint,
/updateCache?names=all, requests again; the process must stay up and every answer must be a
well-formed success / no_routing_found / data_error / query_error object.
Refresh-fault phase (tools/c17refresh.py): the fault hits the directory of a RUNNING healthy server (requests answered, connection
sets cached), then /updateCache?names=all (schedule files: names=schedules first; scenario file: names=scenarios,schedules first); the server must stay up, answer the refresh,
and answer every request like a server freshly started on the faulted directory.
Loader model tie (tools/loadmodel.py): for every fault that is expressible at decoded level (a file deleted, a file emptied, the
cross-file inconsistencies) the outcome class and error code of the real server at start-up -- and after its /updateCache?names=all --
must be the one the extracted Loader2.load_all / Loader2.update computes on the messages Loader2.encode_all produces for the
dataset with the same fault; likewise for the fresh and the refreshed server of every refresh-fault history."""
import os, sys, time, json, shutil
from concurrent.futures import ThreadPoolExecutor
import build, checklib as cl, run, gen, l3, faults, c17refresh, loadmodel
from check_c12 import cl_open

DOC_DATA_CODES = {"DATA_ERROR", "MISSING_DATA_AGENCIES", "MISSING_DATA_SERVICES", "MISSING_DATA_NODES", "MISSING_DATA_LINES", "MISSING_DATA_PATHS",
                  "MISSING_DATA_SCENARIOS", "MISSING_DATA_SCHEDULES"}
DELETE_EXPECT = {"agencies.capnpbin": "MISSING_DATA_AGENCIES", "services.capnpbin": "MISSING_DATA_SERVICES", "nodes.capnpbin": "MISSING_DATA_NODES",
                 "lines.capnpbin": "MISSING_DATA_LINES", "paths.capnpbin": "MISSING_DATA_PATHS", "scenarios.capnpbin": "MISSING_DATA_SCENARIOS"}


def classify(st, body):
    if st is None:
        return "noreply"
    try:
        j = json.loads(body.decode("utf-8"))
    except Exception:
        return "unparsable"
    s = j.get("status")
    if s == "data_error":
        return "data_error " + str(j.get("errorCode"))
    if s in ("success", "no_routing_found", "query_error"):
        return s
    return "other " + str(s)


def probe(args, patient=False):
    """patient=True: the second look at a directory whose first probe ended in a death or an unanswered request -- alone on the
    machine and with long time limits.  The faults are deterministic (the same bytes), so what a loaded machine caused (a
    start-up or an answer slower than the limit) does not come back, a real crash does."""
    binary, cache, port_stub, label, requests, san = args
    res = dict(label=label, started=False, died=None, answers=[], log="")
    t_start, t_get = (120, 120) if patient else (20, 20)
    try:
        srv = l3.Server(binary, cache, port_stub, start_timeout=t_start)
    except Exception as e:
        res["died"] = "start-up: " + str(e)[:300].replace("\n", " ")
        if patient:
            shutil.rmtree(cache, ignore_errors=True)
        return res
    try:
        res["started"] = True
        for phase in ("before", "update", "after"):
            if phase == "update":
                st, hd, body = srv.get("/updateCache?names=all", timeout=t_get + 10)
                res["answers"].append(("update", "noreply" if st is None else "answered"))
            else:
                for r in requests:
                    st, hd, body = srv.get(r, timeout=t_get)
                    res["answers"].append((phase, classify(st, body)))
            if not srv.alive():
                res["died"] = "%s phase: exit status %s %s" % (phase, srv.exit_status(), srv.crash_report()[:300] if hasattr(srv, "crash_report") else "")
                break
    finally:
        srv.stop()
        suspicious = res["died"] or any(a == "noreply" for (_, a) in res["answers"])
        if patient or not suspicious:
            shutil.rmtree(cache, ignore_errors=True)      # (kept for the second look otherwise)
    return res


def merge_counts(a, b):
    out = dict(a)
    for k, v in b.items():
        out[k] = out.get(k, 0) + v
    return out


def answer_class(a):
    """classify()'s text -> 'serves' | 'data_error <code>' | the malformed class itself"""
    return "serves" if a in ("success", "no_routing_found", "query_error") else a


def loader_model_tie(driver, dss, meta, results):
    """compare every probe of a decoded-level fault with the model's prediction (one driver run per dataset)"""
    out = dict(comparisons=0, startup=0, refresh=0, disagreements=[], by_kind={}, predicted={}, not_expressible=0, known_model_gap={})
    for di, ds in enumerate(dss):
        cases = []
        for i, (dj, f) in enumerate(meta):
            if dj != di:
                continue
            dec = loadmodel.decoded_fault(f)
            if dec is None:
                out["not_expressible"] += 1
                continue
            key = loadmodel.kind_key(f)
            if key in loadmodel.KNOWN_MODEL_GAPS:
                out["known_model_gap"][key] = out["known_model_gap"].get(key, 0) + 1
                continue
            cases.append(("j%d" % i, [dec], "faulted", ["all"]))
        if not cases:
            continue
        try:
            pred = loadmodel.predict(driver, ds, cases)
        except Exception as e:
            out["disagreements"].append("the model could not be run on dataset %d: %s" % (di, str(e)[:300]))
            continue
        for (label, dirs, _, _) in cases:
            i = int(label[1:])
            r, f, p = results[i], meta[i][1], pred[label]
            key = loadmodel.kind_key(f)
            before = [answer_class(a) for (ph, a) in r["answers"] if ph == "before"]
            after = [answer_class(a) for (ph, a) in r["answers"] if ph == "after"]
            out["comparisons"] += 1
            out["startup"] += 1
            out["by_kind"][key] = out["by_kind"].get(key, 0) + 1
            want = loadmodel.expected_class(p["load"])
            out["predicted"][want] = out["predicted"].get(want, 0) + 1
            if not r["started"] or not loadmodel.class_matches(p["load"], before):
                out["disagreements"].append("fault '%s' (dataset %d, decoded-level fault '%s'): at start-up the model gives %s (sizes %s, read error %d), the server %s"
                                            % (r["label"], di, dirs[0], want, p["load"]["sizes"], p["load"]["read_error"],
                                               ("did not start: %s" % r["died"]) if not r["started"] else "answers %s" % sorted(set(before))))
                continue
            if after and p["updates"]:
                out["comparisons"] += 1
                out["refresh"] += 1
                u = p["updates"][0]
                out["by_kind"][key] = out["by_kind"].get(key, 0) + 1
                wu = "after refresh: " + loadmodel.expected_class(u)
                out["predicted"][wu] = out["predicted"].get(wu, 0) + 1
                if not loadmodel.class_matches(u, after):
                    out["disagreements"].append("fault '%s' (dataset %d, decoded-level fault '%s'): after /updateCache?names=all on the server started on the faulted files the model (Loader2.update) gives %s (sizes %s), the server answers %s"
                                                % (r["label"], di, dirs[0], loadmodel.expected_class(u), u["sizes"], sorted(set(after))))
    return out


def main(pid, tier, seed, replay_path=None):
    t0 = time.time()
    po = cl.proof_obligations(pid)
    san = (tier == "thorough")
    binary, e1 = l3.build_server(san=san)
    driver, e2 = build.build_driver()
    if e1 or e2:
        path = cl.write_nofail_replay(pid, "server / model build", str(e1 or e2))
        print("VIOLATION property=%s replay=%s no-failing-input-found" % (pid, path))
        return 1
    if replay_path and c17refresh.is_replay(replay_path):
        res = c17refresh.replay(binary, replay_path, san=san)
        for (why, rd) in res["fails"][:6]:
            print(c17refresh.describe(why, rd))
        if res["fails"]:
            print("VIOLATION property=%s replay=%s\n  refresh-fault history reproduced: %s" % (pid, replay_path, res["fails"][0][0]))
            return 1
        print("%s replay %s: the refresh-fault history passes (%s)" % (pid, replay_path, res["outcome_classes"]))
        return 0
    rng = gen.Rng(seed * 3571 + 17)
    d = os.path.join(build.WORK, "scratch", "c17-%d-%s" % (seed, tier))
    shutil.rmtree(d, ignore_errors=True)
    os.makedirs(d, exist_ok=True)
    nds = 2 if tier == "quick" else 3
    jobs, meta, dss = [], [], []       # meta[i] = (dataset index, (kind, file / inconsistency name, arg)) of jobs[i]
    stub = l3.OsrmStub()
    kinds = {}
    for di in range(nds):
        ds = gen.gen_dataset(rng.fork(), dict(gen.PROFILES["opt"], nmax=6, lmax=3))
        base = os.path.join(d, "base%d" % di)
        dss.append(ds)
        # every second directory is written in multi-segment messages (32-word segments), as real-size files are
        l3.write_cache(ds, base, segment_words=(32 if di % 2 == 1 else None))
        n1, n2 = ds.nodes[0], ds.nodes[-1]
        stub.set_tables([(n1, 30, 40)], [(n2, 30, 40)])
        t = min(tt[0][1] for (_, _, _, tt) in ds.trips)
        common = "scenario_id=%s&time_of_trip=%d" % (l3.uuid_of(l3.K_SCEN, 1), max(0, t - 600))
        requests = ["/v2/route?origin=-73.0,45.0001&destination=-73.0,45.0002&" + common,
                    "/v2/accessibility?place=-73.0,45.0001&" + common,
                    "/v2/summary?origin=-73.0,45.0001&destination=-73.0,45.0002&alternatives=true&" + common]
        files = faults.list_files(base)
        fl = []
        for rel in files:
            size = os.path.getsize(os.path.join(base, rel))
            fl.append(("delete", rel, None))
            fl.append(("empty", rel, None))
            small = size <= 400
            if tier == "thorough" and small:
                offs = list(range(1, size))
                bits = list(range(size * 8))
            else:
                offs = sorted(set([1, 2, 7, 8, 9, 15, 16, size // 3, size // 2, size - 9, size - 8, size - 1] + [rng.randint(1, max(1, size - 1)) for _ in range(3)]))
                bits = [rng.randint(0, max(0, size * 8 - 1)) for _ in range(6 if tier == "quick" else 40)] + list(range(0, min(64, size * 8), 5 if tier == "quick" else 1))
            for o in offs:
                if 0 < o < size:
                    fl.append(("truncate", rel, o))
            for b in bits:
                fl.append(("flip", rel, b))
            for _ in range(2 if tier == "quick" else 6):
                s0 = rng.randint(0, max(0, size - 1))
                fl.append(("zero", rel, (s0, rng.choice([1, 4, 8, 16, 64]))))
        # the first 128 bits of a packed Cap'n Proto file hold the root pointer and the section sizes / list pointers of the
        # root struct: one per-stop file and one per-line file get every one of them flipped, in every tier (D14 was bits 32
        # and 33 of a per-stop file: parallel lists of unequal length)
        header_flips = []
        for prefix in ("nodes/", "lines/"):
            cands = [rel for rel in files if rel.startswith(prefix)]
            if cands:
                rel = cands[0]
                size = os.path.getsize(os.path.join(base, rel))
                header_flips += [("flip", rel, b) for b in range(min(128, size * 8))]
        if tier == "quick":
            # per-stop and per-line files: a sample of them gets the full treatment, collections always
            coll = [f for f in fl if "/" not in f[1]]
            sub = [f for f in fl if "/" in f[1]]
            fl = coll + rng.sample(sub, min(len(sub), 150))
        fl += [f for f in header_flips if f not in fl]
        for fi, f in enumerate(fl):
            cache = os.path.join(d, "f%d_%05d" % (di, fi))
            faults.apply_file_fault(base, cache, f)
            jobs.append((binary, cache, stub.port, "%s %s %s" % f, requests, san))
            meta.append((di, f))
            kinds[f[0]] = kinds.get(f[0], 0) + 1
        # two collections missing at once (every pair of the six collections the data status tests, and scenarios + all per-line
        # files): with one fault, two collections are only ever empty together when one depends on the other, so the order of the
        # tests of TransitData::getDataStatus would go unobserved
        sc = ["agencies.capnpbin", "services.capnpbin", "nodes.capnpbin", "lines.capnpbin", "paths.capnpbin", "scenarios.capnpbin"]
        for (a, b) in [(x, y) for i, x in enumerate(sc) for y in sc[i + 1:]] + [("scenarios.capnpbin", "lines/*")]:
            cache = os.path.join(d, "p%d_%s_%s" % (di, a.split(".")[0], b.split(".")[0].replace("/*", "")))
            shutil.copytree(base, cache)
            for rel in [a] + ([x for x in files if x.startswith("lines/")] if b == "lines/*" else [b]):
                os.unlink(os.path.join(cache, rel))
            f = ("delete2", a + "+" + b, None)
            jobs.append((binary, cache, stub.port, "%s %s %s" % f, requests, san))
            meta.append((di, f))
            kinds[f[0]] = kinds.get(f[0], 0) + 1
        for name, (c, n, l) in faults.inconsistencies(ds):
            cache = os.path.join(d, "i%d_%s" % (di, name))
            try:
                faults.write_from_texts([tuple(x) for x in c], [tuple(x) for x in n], [tuple(x) for x in l], cache)
            except Exception as e:
                continue
            jobs.append((binary, cache, stub.port, "inconsistency " + name, requests, san))
            meta.append((di, ("inconsistency", name, None)))
            kinds["inconsistency"] = kinds.get("inconsistency", 0) + 1
    with ThreadPoolExecutor(max_workers=int(os.environ.get("TRV_JOBS", "12"))) as ex:
        results = list(ex.map(probe, jobs))
    # second look, one at a time, at every directory whose probe ended in a death or an unanswered request
    second_looks, second_ok = 0, 0
    for i, r in enumerate(results):
        if r["died"] or any(a == "noreply" for (_, a) in r["answers"]):
            if os.path.isdir(jobs[i][1]):
                second_looks += 1
                r2 = probe(jobs[i], patient=True)
                if not (r2["died"] or any(a == "noreply" for (_, a) in r2["answers"])):
                    second_ok += 1
                    r2["first_look"] = r["died"] or "a request was not answered within 20 s"
                    results[i] = r2
    stub.close()
    t_startup = time.time() - t0
    # ---- refresh-fault phase: the fault arrives while a healthy server runs, then /updateCache ---------------------------------
    rf = c17refresh.run(binary, seed, tier, san=san, driver=driver)
    lm = loader_model_tie(driver, dss, meta, results)
    lm_dis = lm["disagreements"] + rf["loader_model_disagreements"]
    fails, outcomes = [], {}
    for r in results:
        cls = "died" if r["died"] else ("data_error" if any(a[1].startswith("data_error") for a in r["answers"]) else "serves")
        outcomes[cls] = outcomes.get(cls, 0) + 1
        if r["died"]:
            fails.append(("fault '%s': server %s" % (r["label"], r["died"]), r))
            continue
        for (phase, a) in r["answers"]:
            if a in ("noreply", "unparsable") or a.startswith("other"):
                fails.append(("fault '%s': %s request got %s" % (r["label"], phase, a), r))
                break
            if a.startswith("data_error") and a.split()[1] not in DOC_DATA_CODES:
                fails.append(("fault '%s': undocumented data error code %s" % (r["label"], a), r))
                break
        lab = r["label"].split()
        if lab[0] == "delete" and lab[1] in DELETE_EXPECT:
            first = [a for (ph, a) in r["answers"] if ph == "before"]
            if first and first[0] != "data_error " + DELETE_EXPECT[lab[1]]:
                fails.append(("fault '%s': the answer does not name the missing kind of data (%s)" % (r["label"], first[0]), r))
    rc, viol = 0, []
    os.makedirs(os.path.join(cl.REPLAYS, pid), exist_ok=True)
    # crafted corrupt-but-decodable directories (witnesses of earlier findings, corpus/l3/*.json): answered and alive
    import c17corpus
    cp = c17corpus.run(binary)
    for (why, cpath) in cp["fails"]:
        print("VIOLATION property=%s replay=%s\n  %s" % (pid, cpath, why))
        viol.append(cpath); rc = 1
    if rf["fails"]:
        why, rd = rf["fails"][0]
        path = c17refresh.write_replay(pid, why, rd)
        print("VIOLATION property=%s replay=%s" % (pid, path))
        print(c17refresh.describe(why, rd))
        seen = set()
        for (w, r2) in rf["fails"][1:]:
            k = (r2.get("history"), r2.get("phase"), w[:60])
            if k not in seen and len(seen) < 8:
                seen.add(k)
                print("  also: history %s [%s] %s" % (r2.get("history"), r2.get("phase"), w[:200]))
        viol.append(path); rc = 1
    if fails:
        why, r = fails[0]
        path = os.path.join(cl.REPLAYS, pid, "%s-%d.txt" % (pid, int(time.time())))
        with open(path, "w") as f:
            f.write("# %s\n# dataset generator: tools/check_c17.py seed=%d tier=%s ; fault: %s\n%s\n" % (why, seed, tier, r["label"], json.dumps(r["answers"])))
        print("VIOLATION property=%s replay=%s\n  %s" % (pid, path, why))
        for w in sorted(set(x[0][:110] for x in fails))[:8]:
            print("  also:", w)
        viol.append(path); rc = 1
    if lm_dis:
        # the model of the loaders and the loaders differ: either the model does not describe the code (then the theorems about
        # Loader2 say nothing about it) or the harness mapping is wrong; a real misbehaviour of the server is the existing oracle's call
        if not viol:
            path = cl.write_nofail_replay(pid, "correspondence of coq/Loader2.v (load_all / update) with the real cache loaders",
                                          "model Loader2.load_all and the real loaders disagree (%d of %d comparisons):\n%s"
                                          % (len(lm_dis), lm["comparisons"] + rf["loader_model_comparisons"], "\n".join(lm_dis[:60])))
            print("VIOLATION property=%s replay=%s no-failing-input-found\n  model Loader2.load_all and the real loaders disagree (%d comparisons of %d)"
                  % (pid, path, len(lm_dis), lm["comparisons"] + rf["loader_model_comparisons"]))
            viol.append(path); rc = 1
        for w in lm_dis[:8]:
            print("  model Loader2.load_all and the real loaders disagree: " + w[:400])
    if not fails and not rf["fails"] and not lm_dis and not po["ok"]:
        path = cl.write_nofail_replay(pid, "proof obligations of Properties_%s.v (%d of %d)" % (pid, po["discharged"], po["obligations"]), po["log"])
        print("VIOLATION property=%s replay=%s no-failing-input-found" % (pid, path))
        viol.append(path); rc = 1
    cov = dict(second_looks=second_looks, second_looks_answered_normally=second_ok,
               second_look_rule="a directory whose probe ended in a death or an unanswered request is probed once more, alone and with 120 s limits; the faults are deterministic, so only what comes back then is reported (a loaded machine can delay a start-up or an answer beyond the 20 s limits of the parallel run)",
               obligations=max(1, po["obligations"]), discharged=po["discharged"], checker_cmd=po["checker_cmd"], trusted_base=cl.TRUSTED_BASE,
               theorems=po["theorems"], print_assumptions=po["assumptions"], open_statements=cl_open(pid),
               evaluations=len(results), distinct_nontrivial=len(set(r["label"] for r in results)),
               rule="fault enumeration on cache directories written from generated datasets (every second one in multi-segment messages): every file deleted / emptied; every pair of the six collection files the data status tests deleted together (and scenarios + all per-line files); truncation offsets, single-bit flips and zeroed ranges (all offsets and bits of the files <= 400 bytes in the thorough tier, samples otherwise); the cross-file inconsistencies of the property's list; for each: start the real binary%s, one request per endpoint, /updateCache?names=all, the requests again; distinct = distinct (fault kind, file, argument)" % (" (ASan+UBSan build)" if san else ""),
               samples=[dict(fault=r["label"], answers=r["answers"][:4]) for r in results[:3]], fault_kinds=kinds, outcome_classes=outcomes,
               violations=len(fails) + len(rf["fails"]) + len(cp["fails"]), crafted_corpus_cases=cp["cases"], exhaustive=False, sanitizers=san,
               loader_model_rule="every fault of the run that is expressible at decoded level (file deleted = FMissing, file emptied = FGarbled [], the cross-file inconsistencies as changes of the messages; not: truncations, bit flips, zeroed ranges) is also applied to the messages Loader2.encode_all gives for the dataset (in the layout of tools/l3.py write_cache); the extracted Loader2.load_all must predict the outcome class and error code of the real server's answers at start-up (READY = serves, otherwise the fast data_error with the MISSING_DATA code of the status), Loader2.update [CAll] from that state the class after the /updateCache?names=all of the probe; in the refresh-fault phase load_all predicts the fresh server and update (names as sent, from load_all of the healthy files) the refreshed server after every /updateCache",
               loader_model_comparisons=lm["comparisons"] + rf["loader_model_comparisons"],
               loader_model_disagreements=len(lm_dis),
               loader_model_startup_comparisons=lm["startup"] + rf["loader_model_startup"],
               loader_model_refresh_comparisons=lm["refresh"] + rf["loader_model_refresh"],
               loader_model_by_fault_kind=merge_counts(lm["by_kind"], rf["loader_model_by_kind"]),
               loader_model_predicted_classes=merge_counts(lm["predicted"], rf["loader_model_predicted"]),
               loader_model_not_expressible=lm["not_expressible"] + rf["loader_model_not_expressible"],
               known_model_gap=merge_counts(lm["known_model_gap"], rf["known_model_gap"]),
               known_model_gap_reasons=loadmodel.KNOWN_MODEL_GAPS,
               loader_model_disagreement_samples=lm_dis[:10],
               refresh_fault_rule="healthy start-up on a complete generated directory, 9 requests over 3 scenarios (connection sets cached, both cache modes); one fault applied to the directory on disk (every collection file deleted, all per-line files deleted, a per-stop / per-line file deleted; empty / truncated at a sampled offset / one bit flipped / a range zeroed on collection, per-line and per-stop files, the collection rotating with the seed; sampled cross-file inconsistencies); /updateCache?names=all (faults in schedule files: names=schedules first, faults in the scenario file: names=scenarios,schedules first, then names=all), the requests again after every refresh. Oracle: process alive after every step and ended only by our SIGTERM, no sanitizer report; /updateCache answered with the success object; every answer well-formed with a documented data error code and equal (canonical route / map / summary, errorCode, reason) to the answer of a server freshly started on the faulted directory; a deleted collection is named; where the fresh start-up stopped at an unreadable collection (it then reports the first collection it did not get to) the refreshed server, which goes on loading, is instead compared with a second healthy server started on other data and refreshed onto the same files (state after names=all is a function of the files alone)",
               refresh_fault_histories=rf["histories"], refresh_fault_answers=rf["answers"], refresh_fault_updates=rf["updates"],
               refresh_fault_kinds=rf["fault_kinds"], refresh_fault_targets=rf["fault_targets"], refresh_outcome_classes=rf["outcome_classes"],
               refresh_history_independence_checks=rf["independence_checked"], refresh_fault_violations=len(rf["fails"]),
               refresh_fault_samples=rf["labels"][:40], startup_phase_wall_s=round(t_startup, 1), refresh_phase_wall_s=rf["wall_s"])
    cl.write_evidence(pid, tier, seed, "proof", cov, ["byte level reduced to 'the decoder throws or yields a well-typed message' (Cap'n Proto's contract, trusted); collection loaders other than schedules/stop files are guarded by catch-alls in the source and are covered by the enumeration only"],
                      time.time() - t0, len(viol))
    print("%s %s: obligations %d/%d, %d faulted directories %s -> %s, %d violations (%.1fs); refresh-fault phase: %d histories %s, %d answers, %d history-independence checks -> %s, %d violations (%.1fs); loader model: %d comparisons (%d start-up, %d after a refresh), %d disagreements, %d skipped as known model gap; %.1fs"
          % (pid, tier, po["discharged"], po["obligations"], len(results), kinds, outcomes, len(fails), t_startup, rf["histories"], rf["fault_kinds"], rf["answers"],
             rf["independence_checked"], rf["outcome_classes"], len(rf["fails"]), rf["wall_s"],
             lm["comparisons"] + rf["loader_model_comparisons"], lm["startup"] + rf["loader_model_startup"], lm["refresh"] + rf["loader_model_refresh"],
             len(lm_dis), sum(lm["known_model_gap"].values()) + sum(rf["known_model_gap"].values()), time.time() - t0))
    return rc
