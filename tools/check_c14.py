from check_hist import main
