#!/usr/bin/env python3
"""Batch runner: executes the implementation harness (l2), the extracted model and the extracted oracles
on a set of case files in parallel, and returns one record per operation."""
import os, subprocess, sys, json, hashlib
from concurrent.futures import ThreadPoolExecutor


def run_cmd(cmd, timeout=300, env=None):
    try:
        r = subprocess.run(cmd, stdout=subprocess.PIPE, stderr=subprocess.DEVNULL, timeout=timeout, env=env)
        return r.returncode, r.stdout.decode("utf-8", "replace")
    except subprocess.TimeoutExpired as e:
        return -9, (e.stdout or b"").decode("utf-8", "replace")


def ops_of(case_path):
    """the operation lines of a case file, in order (after the dataset block)"""
    ops = []
    seen_end = False
    in_refresh = False
    with open(case_path) as f:
        for line in f:
            s = line.split("#")[0].strip()
            if not s:
                continue
            if not seen_end:
                if s == "end":
                    seen_end = True
                continue
            if in_refresh:
                # the dataset block of a refresh belongs to that one operation
                ops[-1] += "\n" + s
                if s == "end":
                    in_refresh = False
                continue
            if s.split()[0] == "refresh":
                in_refresh = True
            ops.append(s)
    return ops


# a case normally takes well under a second; an implementation that loops is given 120 s on the first three cases that time
# out and 10 s afterwards, so that a hanging change costs minutes, not hours (every timed-out case is reported: <missing rc=-9>)
_TIMED_OUT = [0]


def run_case(args):
    case, l2, driver, outdir, env = args
    base = os.path.join(outdir, os.path.basename(case))
    rc_i, impl = run_cmd([l2, case], env=env, timeout=120 if _TIMED_OUT[0] < 3 else 10)
    if rc_i == -9:
        _TIMED_OUT[0] += 1
    with open(base + ".impl", "w") as f:
        f.write(impl)
    rc_m, model = run_cmd([driver, "model", case])
    rc_o, orac = run_cmd([driver, "oracle", case, base + ".impl"])
    ops = ops_of(case)
    il = impl.splitlines()
    ml = model.splitlines()
    ol = orac.splitlines()
    ds_line = ol[0] if ol else ""
    ol = ol[1:]
    recs = []
    for i, op in enumerate(ops):
        recs.append(dict(case=case, idx=i, op=op,
                         impl=il[i] if i < len(il) else "<missing rc=%d>" % rc_i,
                         model=ml[i] if i < len(ml) else "<missing rc=%d>" % rc_m,
                         verdict=ol[i] if i < len(ol) else "<missing rc=%d>" % rc_o,
                         ds=ds_line))
    return recs


def run_batch(cases, l2, driver, outdir, env=None, workers=16):
    os.makedirs(outdir, exist_ok=True)
    with ThreadPoolExecutor(max_workers=workers) as ex:
        res = list(ex.map(run_case, [(c, l2, driver, outdir, env) for c in cases]))
    return [r for rs in res for r in rs]


def vget(verdict, key):
    """value of key=... in a verdict line"""
    for tok in verdict.split():
        if tok.startswith(key + "="):
            return tok[len(key) + 1:]
    return None


if __name__ == "__main__":
    sys.path.insert(0, os.path.dirname(os.path.abspath(__file__)))
    import build, gen
    l2, e = build.build_l2()
    dr, e2 = build.build_driver()
    if e or e2:
        print(e, e2)
        sys.exit(2)
    seed = int(sys.argv[1]) if len(sys.argv) > 1 else 1
    count = int(sys.argv[2]) if len(sys.argv) > 2 else 40
    nq = int(sys.argv[3]) if len(sys.argv) > 3 else 20
    d = os.path.join(build.WORK, "scratch", "batch%d" % seed)
    cases = gen.gen_batch(d, seed, count, nq)
    recs = run_batch(cases, l2, dr, d + ".out")
    diff = [r for r in recs if r["impl"] != r["model"]]
    print("ops", len(recs), "diffs", len(diff))
    for r in diff[:10]:
        print("DIFF", r["case"], r["idx"], "\n  op   ", r["op"], "\n  impl ", r["impl"], "\n  model", r["model"])
    from collections import Counter
    c = Counter()
    for r in recs:
        v = r["verdict"]
        for k in ["C01", "C02", "C06", "C03", "C04", "C05", "C07", "map", "each", "distinct", "caps", "nobetter"]:
            x = vget(v, k)
            if x is not None:
                c[(k, x)] += 1
        if " | opt " in r["impl"] and r["impl"].split(" | opt")[1].strip():
            c[("opt", r["impl"].split(" | opt")[1].strip())] += 1
        c[("status", " ".join(r["impl"].split()[:2]) + ((" " + r["impl"].split()[2]) if "noroute" in r["impl"] else ""))] += 1
    for k in sorted(c):
        print(k, c[k])
    bad = [r for r in recs if any(vget(r["verdict"], k) == "0" for k in ["C01", "C02", "C06", "C03", "C04", "C05", "C07", "map"])]
    for r in bad[:8]:
        print("BAD", r["case"], r["idx"], "\n  op   ", r["op"], "\n  impl ", r["impl"], "\n  verd ", r["verdict"])
