#!/usr/bin/env python3
"""Translator, stage 3e: regenerates coq/gen/Optimize.v from the CURRENT source of Calculator::optimizeJourney
(optimize_journey.cpp).

Part 1, the detection of one pass, as DATA interpreted by coq/Optimize.v: the test that makes a journey step a leg, the
index arithmetic of its in-between stops and the test that keeps one (`gen_opt_leg`), and the four searches CSL / BTS /
GTF / CSS IN SOURCE ORDER, each with its outer condition, the list searched, the needle, the stop looked up in
ignoreOptimizationNodes, the case number and the node recorded (`gen_opt_cases`).

Part 2, one pass of the `while` loop as a statement tree (`gen_opt_pass`, type `oskel`) with the declarations before the
loop (`gen_opt_before`) and the loop condition (`gen_opt_continue`): what is (re)initialised at the top of a pass, the
detection (one statement), the four rewrite blocks with their loops over trip.reverseConnections (index arithmetic
translated), node match and permission tests, what is erased / replaced / pushed.

Proofs/OptimizeTie.v (detection), Proofs/OptimizePassTie.v (the rewrite blocks) and Proofs/OptimizeLoopTie.v (a pass, the
loop, the function) tie the model (Journey.v) to these.  Policy as in gen_guards.py / gen_skel.py / gen_emit.py /
gen_loops.py: what cannot be read is emitted as the committed data and reported `fallback` (no alarm by itself)."""
import os, re, sys, json

HERE = os.path.dirname(os.path.abspath(__file__))
sys.path.insert(0, HERE)
import gen_guards as GG
import gen_skel as SK
import gen_emit as GE
from gen_skel import Untranslatable, flat

VERIF = os.path.dirname(HERE)
OUT = os.path.join(VERIF, "coq", "gen", "Optimize.v")
SRC = "connection_scan_algorithm/src/optimize_journey.cpp"
SIG = "Calculator::optimizeJourney("
B, Z = GG.B, GG.Z

BETWEEN = "inBetweenNodesByJourneyStepIdx"
LASTN = "lastNodeByJourneyStepIdx"
IGN = "ignoreOptimizationNodes"
NODE_SEL = {LASTN + ".at(journeyStepIdx).value()": "NLastJ", LASTN + ".at(journeyStepIdx)": "NLastJ",
            LASTN + ".at(i).value()": "NLastI", LASTN + ".at(i)": "NLastI",
            "firstNodeByJourneyStep": "NFirstJ", "node": "NEach"}
HAY_SEL = {BETWEEN + "[i]": "HBetweenI", BETWEEN + "[journeyStepIdx]": "HBetweenJ"}
OUTER_ATOMS = {"optimizationCase": ("now", Z), BETWEEN + "[i].size()": ("bi", Z), BETWEEN + "[journeyStepIdx].size()": ("bj", Z)}


def expr(text, ty, atoms):
    return GE.expr(text, ty, atoms)


def parse_function(src):
    """-> (statements before the while, while condition, statements of the while body)"""
    body = GG.fn_body(src, SIG)
    before, k = [], SK.skip_ws(body, 1)
    while k < len(body) and body[k] != "}":
        if SK.keyword_at(body, k, "return"):
            break
        ns, k = SK.parse_stmt(body, k)
        for n in ns:
            if n[0] == "while":
                return before, flat(n[1]), n[2]
            before.append(n)
        k = SK.skip_ws(body, k)
    raise Untranslatable("the `while` loop of optimizeJourney was not found")


# ------------------------------------------------------------------------------------------------
# part 1: detection

def find_call(text):
    """std::find(H.begin(),H.end(),N) -> (H, N)"""
    m = re.match(r"^std::find\((.+)\.begin\(\),(.+)\.end\(\),(.+)\)$", text)
    if not m or m.group(1) != m.group(2):
        raise Untranslatable("unrecognised search: " + text[:90])
    return m.group(1), m.group(3)


def hit_block(nodes):
    """optimizationCase = K; optimizationNode = N; fromJourneyStepIdx = i; toJourneyStepIdx = journeyStepIdx; break;"""
    t = [flat(n[1]) if n[0] == "stmt" else n[0] for n in nodes if not (n[0] == "stmt" and SK.LOGGING.match(flat(n[1])))]
    if len(t) != 5 or t[2] != "fromJourneyStepIdx=i" or t[3] != "toJourneyStepIdx=journeyStepIdx" or t[4] != "break":
        raise Untranslatable("unexpected statements where a case is recorded")
    m1, m2 = re.match(r"^optimizationCase=(\d+)$", t[0]), re.match(r"^optimizationNode=(.+)$", t[1])
    if not m1 or not m2 or m2.group(1) not in NODE_SEL:
        raise Untranslatable("unexpected statements where a case is recorded")
    return int(m1.group(1)), NODE_SEL[m2.group(1)]


def search(nodes):
    """auto commonNodeI = std::find(hay..., needle); if (commonNodeI != hay.end() && std::find(ignore..., x) == ignore.end()) { hit }"""
    ns = [n for n in nodes if not (n[0] == "stmt" and (SK.LOGGING.match(flat(n[1])) or re.match(r"^constNode&node=" + re.escape(BETWEEN) + r"\[i\]\[j\]$", flat(n[1]))))]
    if len(ns) != 2 or ns[0][0] != "stmt" or ns[1][0] != "if" or ns[1][3]:
        raise Untranslatable("unexpected shape of a search")
    m = re.match(r"^autocommonNodeI=(.+)$", flat(ns[0][1]))
    if not m:
        raise Untranslatable("unexpected shape of a search")
    hay, needle = find_call(m.group(1))
    if hay not in HAY_SEL or needle not in NODE_SEL:
        raise Untranslatable("unrecognised search: " + m.group(1)[:90])
    cond = flat(ns[1][1])
    ig = re.search(r"std::find\(" + IGN + r"\.begin\(\)," + IGN + r"\.end\(\),(.+?)\)==" + IGN + r"\.end\(\)", cond)
    if not ig:
        ig = re.search(r"std::find\(" + IGN + r"\.begin\(\)," + IGN + r"\.end\(\),(.+?)\)!=" + IGN + r"\.end\(\)", cond)
    if ig and ig.group(1) not in NODE_SEL:
        raise Untranslatable("unrecognised look-up in ignoreOptimizationNodes: " + ig.group(1)[:80])
    atoms = {"commonNodeI!=%s.end()" % hay: ("found", B), "commonNodeI==%s.end()" % hay: ("(negb found)", B)}
    if ig:
        atoms["std::find(%s.begin(),%s.end(),%s)==%s.end()" % (IGN, IGN, ig.group(1), IGN)] = ("(negb ignored)", B)
        atoms["std::find(%s.begin(),%s.end(),%s)!=%s.end()" % (IGN, IGN, ig.group(1), IGN)] = ("ignored", B)
    ign_sel = NODE_SEL[ig.group(1)] if ig else NODE_SEL[needle]      # no look-up: `ignored` is not read by the test
    case, node = hit_block(ns[1][2])
    return dict(hay=HAY_SEL[hay], needle=NODE_SEL[needle], ign=ign_sel, hit=expr(cond, B, atoms), case=case, node=node)


def detection_cases(loop_i):
    cases = []
    for n in loop_i:
        if n[0] == "stmt" and SK.LOGGING.match(flat(n[1])):
            continue
        if n[0] != "if" or n[3]:
            raise Untranslatable("unexpected statement in the loop over the earlier legs")
        outer = expr(flat(n[1]), B, OUTER_ATOMS)
        inner = [x for x in n[2] if not (x[0] == "stmt" and (SK.LOGGING.match(flat(x[1])) or flat(x[1]) == "std::vector<int>commonNodes"))]
        value, loop = "None", "false"
        if len(inner) == 1 and inner[0][0] == "if" and not inner[0][3]:
            m = re.match(r"^(.+)\.has_value\(\)$", flat(inner[0][1]))
            if not m or m.group(1) not in NODE_SEL:
                raise Untranslatable("unexpected test around a search: " + flat(inner[0][1])[:80])
            value, inner = "(Some %s)" % NODE_SEL[m.group(1)], inner[0][2]
        elif len(inner) == 2 and inner[0][0] == "for" and inner[1][0] == "if":
            if flat(inner[0][1]) != "size_tj=0;j<%s[i].size();j++" % BETWEEN or flat(inner[1][1]) != "optimizationCase>=0" \
                    or [x[0] for x in inner[1][2]] != ["break"] or inner[1][3]:
                raise Untranslatable("unexpected shape of the search over the in-between stops")
            loop, inner = "true", inner[0][2]
        s = search(inner)
        cases.append("{| oc_case := %d; oc_outer := (fun now bi bj => %s); oc_value := %s; oc_loop := %s;\n       oc_hay := %s; oc_needle := %s; oc_ign := %s; oc_hit := (fun found ignored => %s); oc_node := %s |}"
                     % (s["case"], outer, value, loop, s["hay"], s["needle"], s["ign"], s["hit"], s["node"]))
    if not cases:
        raise Untranslatable("no search found")
    return "[ " + ";\n     ".join(cases) + " ]"


SEQ_CALL = r"journeyStep\.getFinal(Enter|Exit)Connection\(\)\.value\(\)\.get\(\)\.getSequenceInTrip\(\)"


def detection(body):
    steps = [n for n in body if n[0] == "for" and flat(n[1]) == "auto&journeyStep:journey"]
    if len(steps) != 1:
        raise Untranslatable("the loop over the journey steps was not found")
    inner = [n for n in steps[0][2] if not (n[0] == "stmt" and SK.LOGGING.match(flat(n[1])))]
    if len(inner) != 2 or inner[0][0] != "if" or inner[1][0] != "stmt" or flat(inner[1][1]) not in ("++journeyStepIdx", "journeyStepIdx++"):
        raise Untranslatable("unexpected shape of the loop over the journey steps")
    leg = inner[0]
    is_leg = expr(flat(leg[1]), B, {"journeyStep.getFinalTrip().has_value()": ("has_trip", B), "journeyStep.hasConnections()": ("has_conns", B)})
    if [flat(x[1]) for x in leg[3] if x[0] == "stmt"] != [LASTN + ".push_back(std::nullopt)", BETWEEN + ".resize(journeyStepIdx+1)"]:
        raise Untranslatable("unexpected statements for a journey step that is not a leg")
    seq, first, cont, keep, loop_i, after = {}, None, None, None, None, []
    expected_plain = [r"^constTrip&trip=journeyStep\.getFinalTrip\(\)\.value\(\)\.get\(\)$",
                      r"^autoenterConnect=journeyStep\.getFinalEnterConnection\(\)\.value\(\)\.get\(\)$",
                      r"^constNode&firstNodeByJourneyStep=enterConnect\.getDepartureNode\(\)$",
                      r"^autoexitConnect=journeyStep\.getFinalExitConnection\(\)\.value\(\)\.get\(\)$",
                      "^" + LASTN + r"\.push_back\(exitConnect\.getArrivalNode\(\)\)$",
                      "^" + BETWEEN + r"\.resize\(journeyStepIdx\+1\)$"]
    for n in leg[2]:
        if n[0] == "stmt":
            t = flat(n[1])
            if SK.LOGGING.match(t) or any(re.match(rx, t) for rx in expected_plain):
                continue
            m = re.match(r"^intsequence(Start|End)Idx=(.+)$", t)
            mm = m and re.search(SEQ_CALL, m.group(2))
            if m and mm and (mm.group(1) == "Enter") == (m.group(1) == "Start"):
                seq[m.group(1)] = expr(m.group(2), Z, {mm.group(0).replace("\\", ""): ("seq", Z)})
                continue
            raise Untranslatable("unrecognised statement in the leg summary: " + t[:90])
        if n[0] == "for":
            h = flat(n[1])
            m = re.match(r"^intsequenceIdx=(.+);(.+);(?:\+\+sequenceIdx|sequenceIdx\+\+)$", h)
            if m and first is None:
                first = expr(m.group(1), Z, {"sequenceStartIdx": ("s", Z)})
                cont = expr(m.group(2), B, {"sequenceIdx": ("idx", Z), "sequenceEndIdx": ("e", Z)})
                b = [x for x in n[2] if not (x[0] == "stmt" and SK.LOGGING.match(flat(x[1])))]
                if len(b) != 2 or b[0][0] != "stmt" or b[1][0] != "if" or b[1][3] \
                        or flat(b[0][1]) != "constNode&nodeDep=trip.forwardConnections[sequenceIdx].get().getDepartureNode()" \
                        or [flat(x[1]) for x in b[1][2] if x[0] == "stmt"] != [BETWEEN + "[journeyStepIdx].push_back(trip.forwardConnections[sequenceIdx].get().getDepartureNode())"]:
                    raise Untranslatable("unexpected shape of the loop over the in-between stops of a leg")
                keep = expr(flat(b[1][1]), B, {"nodeDep.uuid": ("stop", Z), "firstNodeByJourneyStep.uuid": ("first", Z),
                                               LASTN + ".at(journeyStepIdx).value().get().uuid": ("last", Z)})
                continue
            if h in ("inti=0;i<journeyStepIdx;i++", "inti=0;i<journeyStepIdx;++i") and loop_i is None:
                loop_i = n[2]
                continue
            raise Untranslatable("unrecognised loop in the leg summary: for(%s)" % h[:80])
        if n[0] == "if" and flat(n[1]) == "optimizationCase>=0" and not n[3] \
                and [x[0] for x in n[2] if not (x[0] == "stmt" and SK.LOGGING.match(flat(x[1])))] == ["break"]:
            continue
        raise Untranslatable("unexpected `%s` in the leg summary" % n[0])
    if set(seq) != {"Start", "End"} or seq["Start"] != seq["End"] or first is None or loop_i is None:
        raise Untranslatable("the index arithmetic of a leg was not found")
    leg_def = ("{| ol_is_leg := (fun has_trip has_conns => %s); ol_seq_idx := (fun seq => %s); ol_first := (fun s => %s);\n"
               "     ol_continue := (fun idx e => %s); ol_keep := (fun stop first last => %s) |}") % (is_leg, seq["Start"], first, cont, keep)
    return leg_def, detection_cases(loop_i)


# ------------------------------------------------------------------------------------------------
# part 2: the statements before the loop, the loop condition, one pass

IGNORED = re.compile(r"^(?:CalculationTimeoptimizeJourneyCalculationTime=CalculationTime\(\)|optimizeJourneyCalculationTime\.start\(\)"
                     r"|longlongoptimizeJourneyStartCalculationTime|optimizeJourneyStartCalculationTime=optimizeJourneyCalculationTime\.getDurationMicrosecondsNoStop\(\)"
                     r"|assert\(.*\)|(?:usedOptimizationCases|ignoreOptimizationNodes|lastNodeByJourneyStepIdx|inBetweenNodesByJourneyStepIdx)\.reserve\(.*\))$")
INT_VARS = {"optimizationCase": "VCase", "journeyStepIdx": "VIdx", "fromJourneyStepIdx": "VFrom", "toJourneyStepIdx": "VTo"}
PROJ = {"VCase": "o_case", "VIdx": "o_idx", "VFrom": "o_from", "VTo": "o_to", "VS1": "o_s1", "VE1": "o_e1", "VS2": "o_s2", "VE2": "o_e2"}
VECTORS = {"usedOptimizationCases": ("WUsed", r"std::vector<int>"),
           IGN: ("WIgn", r"std::vector<std::reference_wrapper<constNode>>"),
           LASTN: ("WLastN", r"std::vector<std::optional<std::reference_wrapper<constNode>>>"),
           BETWEEN: ("WBetween", r"std::vector<std::vector<std::reference_wrapper<constNode>>>")}
OPT_NODE = r"std::optional<std::reference_wrapper<constNode>>"
OPT_CONN = r"std::optional<std::reference_wrapper<constConnection>>"
LOCAL_SLOTS = ["VS1", "VE1", "VS2", "VE2"]
TRIP_SLOTS = ["T1", "T2"]
NODE_EQ = {"getArrivalNode": "c_to", "getDepartureNode": "c_from"}


class Ctx:
    def __init__(self):
        self.ints, self.trips, self.bodies, self.blocks, self.in_loop, self.rewrites = {}, {}, [], [], False, None

    def atoms(self, extra=None):
        a = {"startedOptimization": ("(o_started m)", B)}
        for name, v in list(INT_VARS.items()) + list(self.ints.items()):
            a[name] = ("(%s m)" % PROJ[v], Z)
        if self.in_loop:
            for call, f in NODE_EQ.items():
                a["optimizationNode.value()==connection.get().%s()" % call] = ("(Nat.eqb (o_nodev m) (%s (o_conn m)))" % f, B)
                a["connection.get().%s()==optimizationNode.value()" % call] = ("(Nat.eqb (o_nodev m) (%s (o_conn m)))" % f, B)
                a["optimizationNode.value()!=connection.get().%s()" % call] = ("(negb (Nat.eqb (o_nodev m) (%s (o_conn m))))" % f, B)
            a["connection.get().canUnboard()"] = ("(c_cu (o_conn m))", B)
            a["connection.get().canBoard()"] = ("(c_cb (o_conn m))", B)
        a["exitConnection.has_value()"] = ("(is_some (o_exit m))", B)
        a["optimizationNode.has_value()"] = ("(is_some (o_node m))", B)
        if extra:
            a.update(extra)
        return a


def lit_bool(t):
    if t in ("true", "false"):
        return t
    return None


def one(n, ctx):
    """one statement -> text of the constructor applied to everything but the continuation, or None if it says nothing"""
    kind = n[0]
    if kind == "break":
        if not ctx.in_loop:
            raise Untranslatable("`break` outside a loop over reverseConnections")
        return "BREAK"
    if kind == "for":
        h = flat(n[1])
        if h == "auto&journeyStep:journey":
            if ctx.in_loop:
                raise Untranslatable("the detection inside a loop over reverseConnections")
            return "ODetect"
        return range_loop(n, ctx)
    if kind == "if":
        g = expr(flat(n[1]), B, ctx.atoms())
        return ("IF", g, n[2], n[3])
    if kind != "stmt":
        raise Untranslatable("unsupported statement `%s` in optimizeJourney" % kind)
    t = flat(n[1])
    if SK.LOGGING.match(t) or IGNORED.match(t):
        return None
    for name, (w, ty) in VECTORS.items():
        if t == ty + name or t == name + ".clear()":
            return "OClear %s" % w
    if t in (OPT_NODE + "optimizationNode", "optimizationNode.reset()", "optimizationNode=std::nullopt"):
        return "OSetNode (fun m => None)"
    if t in (OPT_CONN + "exitConnection", "exitConnection.reset()", "exitConnection=std::nullopt"):
        return "OSetExit (fun m => None)"
    if t == "exitConnection=connection" and ctx.in_loop:
        return "OSetExit (fun m => Some (o_conn m))"
    m = re.match(r"^(?:bool)?startedOptimization(?:\{(\w+)\}|=(\w+))$", t)
    if m and lit_bool(m.group(1) or m.group(2)):
        return "OSetStarted (fun m => %s)" % lit_bool(m.group(1) or m.group(2))
    m = re.match(r"^constTrip&(\w+)=journey\[(.+)\]\.getFinalTrip\(\)\.value\(\)\.get\(\)$", t)
    if m:
        if m.group(1) in ctx.trips or len(ctx.trips) >= len(TRIP_SLOTS):
            raise Untranslatable("too many trip references in a block")
        at = expr(m.group(2), Z, ctx.atoms())
        ctx.trips[m.group(1)] = TRIP_SLOTS[len(ctx.trips)]
        return "OSetTrip %s (fun m => %s)" % (ctx.trips[m.group(1)], at)
    m = re.match(r"^int(\w+)=(.+)$", t)
    mm = m and re.search(r"journey\[([^\]]+)\]\.getFinal(Enter|Exit)Connection\(\)\.value\(\)\.get\(\)\.getSequenceInTrip\(\)", m.group(2))
    if m and mm and m.group(1) not in INT_VARS:
        if m.group(1) in ctx.ints or len(ctx.ints) >= len(LOCAL_SLOTS):
            raise Untranslatable("too many int variables in a block")
        at = expr(mm.group(1), Z, ctx.atoms())
        f = expr(m.group(2), Z, {mm.group(0): ("seq", Z)})
        ctx.ints[m.group(1)] = LOCAL_SLOTS[len(ctx.ints)]
        return "OSetSeq %s %s (fun m => %s) (fun seq => %s)" % (ctx.ints[m.group(1)], "C" + mm.group(2), at, f)
    m = re.match(r"^(?:short|int)?(\w+)(?:\{(.+)\}|=(.+))$", t)
    if m and (m.group(1) in INT_VARS or m.group(1) in ctx.ints):
        v = INT_VARS.get(m.group(1)) or ctx.ints[m.group(1)]
        return "OSetZ %s (fun m => %s)" % (v, expr(m.group(2) or m.group(3), Z, ctx.atoms()))
    if t == IGN + ".push_back(optimizationNode.value())":
        return "OPushIgn (fun m => o_nodev m)"
    m = re.match(r"^usedOptimizationCases\.push_back\((\d+)\)$", t)
    if m:
        return "OPushUsed %s%%nat" % m.group(1)
    m = re.match(r"^journey\[(.+)\]\.copyTransferTimeDistance\(journey\[(.+)\]\)$", t)
    if m:
        return "OCopyWalk (fun m => %s) (fun m => %s)" % (expr(m.group(1), Z, ctx.atoms()), expr(m.group(2), Z, ctx.atoms()))
    m = re.match(r"^journey\.erase\((.+)\)$", t)
    if m:
        args = GE.split_top(m.group(1), ",")
        if len(args) != 2 or not all(a.startswith("journey.begin()") for a in args):
            raise Untranslatable("unrecognised erase: " + t[:90])
        offs = []
        for a in args:
            rest = a[len("journey.begin()"):]
            offs.append("0" if not rest else expr(rest[1:] if rest[0] == "+" else "0" + rest, Z, ctx.atoms()))
        return "OErase (fun m => %s) (fun m => %s)" % tuple(offs)
    m = re.match(r"^journey\[(.+)\]\.setFinal(Enter|Exit)Connection\((connection|exitConnection\.value\(\))\)$", t)
    if m and (ctx.in_loop or m.group(3) != "connection"):
        return "OSetConn C%s (fun m => %s) %s" % (m.group(2), expr(m.group(1), Z, ctx.atoms()), "FromConn" if m.group(3) == "connection" else "FromExit")
    m = re.match(r"^journey\[(.+)\]\.setTransferTimeDistance\((.+)\)$", t)
    if m:
        args = GE.split_top(m.group(2), ",")
        if len(args) != 2:
            raise Untranslatable("unrecognised setTransferTimeDistance: " + t[:90])
        return "OSetWalk (fun m => %s) (fun m => %s) (fun m => %s)" % (expr(m.group(1), Z, ctx.atoms()), expr(args[0], Z, ctx.atoms()), expr(args[1], Z, ctx.atoms()))
    raise Untranslatable("unrecognised statement in optimizeJourney: " + t[:90])


def range_loop(n, ctx):
    h = flat(n[1])
    m = re.match(r"^size_t(\w+)=(.+);(.+);(?:\+\+(\w+)|(\w+)\+\+)$", h)
    if not m or (m.group(4) or m.group(5)) != m.group(1):
        raise Untranslatable("unrecognised loop: for(%s)" % h[:90])
    var = m.group(1)
    tm = re.search(r"(\w+)\.reverseConnections\.size\(\)", m.group(2))
    if not tm or tm.group(1) not in ctx.trips:
        raise Untranslatable("loop that does not run over a trip's reverseConnections: for(%s)" % h[:90])
    trip = tm.group(1)
    if ctx.in_loop:
        raise Untranslatable("nested loops over reverseConnections")
    body = [x for x in n[2] if not (x[0] == "stmt" and SK.LOGGING.match(flat(x[1])))]
    if not body or body[0][0] != "stmt" or flat(body[0][1]) != "autoconnection=%s.reverseConnections[%s]" % (trip, var):
        raise Untranslatable("the loop over reverseConnections does not start by reading connection = %s.reverseConnections[%s]" % (trip, var))
    size = {trip + ".reverseConnections.size()": ("sz", Z)}
    first = expr(m.group(2), Z, ctx.atoms(size))
    size[var] = ("idx", Z)
    cont = expr(m.group(3), B, ctx.atoms(size))
    ctx.in_loop = True
    btree = tree(body[1:], ctx, 2)
    ctx.in_loop = False
    ctx.bodies.append(btree)
    return "ORange %s (fun sz m => %s) (fun idx sz m => %s) gen_opt_body%d" % (ctx.trips[trip], first, cont, len(ctx.bodies))


def tree(nodes, ctx, ind, top=False):
    """statement list -> oskel text"""
    pad = "  " * ind
    if not nodes:
        return pad + "ODone"
    r = one(nodes[0], ctx)
    if r is None:
        return tree(nodes[1:], ctx, ind, top)
    if r == "BREAK":
        return pad + "OBreak"
    if isinstance(r, tuple):
        _, g, th, el = r
        if top and any(x[0] == "for" for x in th):
            # a rewrite block: its own variables
            saved = ctx.ints, ctx.trips
            ctx.ints, ctx.trips = {}, {}
            ctx.blocks.append(tree(th, ctx, 2))
            ctx.ints, ctx.trips = saved
            tht = pad + "   gen_opt_block%d" % len(ctx.blocks)
        else:
            tht = tree(th, ctx, ind + 2)
        elt = tree(el, ctx, ind + 2, top)
        rest = tree(nodes[1:], ctx, ind, top)
        return "%s(OIf (fun m => %s)\n%s\n%s\n%s)" % (pad, g, tht, elt, rest)
    if r == "ODetect" and top and ctx.rewrites is None:
        # what follows the detection is a definition of its own
        ctx.rewrites = tree(nodes[1:], ctx, 1, top)
        return "%s(ODetect\n%sgen_opt_rewrites)" % (pad, pad)
    rest = tree(nodes[1:], ctx, ind, top)
    return "%s(%s\n%s)" % (pad, r, rest)


# the committed data (what `--print-hand` prints on the source this was written against)
HAND = [
    ('gen_opt_leg', 'opt_leg', 'which journey step is a leg, and its in-between stops', """{| ol_is_leg := (fun has_trip has_conns => (has_trip && has_conns)); ol_seq_idx := (fun seq => (seq - 1)); ol_first := (fun s => (s + 1));
     ol_continue := (fun idx e => (idx <=? e)); ol_keep := (fun stop first last => ((negb (stop =? first)) && (negb (stop =? last)))) |}"""),
    ('gen_opt_cases', 'list opt_case', 'the searches inside `for (int i = 0; i < journeyStepIdx; i++)`, in source order', """[ {| oc_case := 1; oc_outer := (fun now bi bj => (bi >? 0)); oc_value := None; oc_loop := false;
       oc_hay := HBetweenI; oc_needle := NLastJ; oc_ign := NLastJ; oc_hit := (fun found ignored => (found && (negb ignored))); oc_node := NLastJ |};
     {| oc_case := 2; oc_outer := (fun now bi bj => ((now =? (-1)) && (bj >? 0))); oc_value := (Some NLastI); oc_loop := false;
       oc_hay := HBetweenJ; oc_needle := NLastI; oc_ign := NLastI; oc_hit := (fun found ignored => (found && (negb ignored))); oc_node := NLastI |};
     {| oc_case := 3; oc_outer := (fun now bi bj => ((now =? (-1)) && (bi >? 0))); oc_value := None; oc_loop := false;
       oc_hay := HBetweenI; oc_needle := NFirstJ; oc_ign := NFirstJ; oc_hit := (fun found ignored => (found && (negb ignored))); oc_node := NFirstJ |};
     {| oc_case := 4; oc_outer := (fun now bi bj => ((bi >? 0) && (bj >? 0))); oc_value := None; oc_loop := true;
       oc_hay := HBetweenJ; oc_needle := NEach; oc_ign := NEach; oc_hit := (fun found ignored => (found && (negb ignored))); oc_node := NEach |} ]"""),
    ('gen_opt_body1', 'oskel', 'body of the 1st loop over reverseConnections (after `auto connection = ...`)', """(OIf (fun m => (Nat.eqb (o_nodev m) (c_to (o_conn m))))
        (OIf (fun m => (negb (c_cu (o_conn m))))
            (OPushIgn (fun m => o_nodev m)
            OBreak)
            (OPushUsed 1%nat
            (OCopyWalk (fun m => (o_from m)) (fun m => (o_to m))
            (OErase (fun m => ((o_from m) + 1)) (fun m => ((o_to m) + 1))
            (OSetConn CExit (fun m => (o_from m)) FromConn
            OBreak))))
        ODone)
        ODone
    ODone)"""),
    ('gen_opt_body2', 'oskel', 'body of the 2nd loop over reverseConnections (after `auto connection = ...`)', """(OIf (fun m => (Nat.eqb (o_nodev m) (c_from (o_conn m))))
        (OIf (fun m => (negb (c_cb (o_conn m))))
            (OPushIgn (fun m => o_nodev m)
            OBreak)
            (OPushUsed 2%nat
            (OSetConn CEnter (fun m => (o_to m)) FromConn
            (OSetWalk (fun m => (o_from m)) (fun m => 0) (fun m => 0)
            (OErase (fun m => ((o_from m) + 1)) (fun m => (o_to m))
            OBreak))))
        ODone)
        ODone
    ODone)"""),
    ('gen_opt_body3', 'oskel', 'body of the 3rd loop over reverseConnections (after `auto connection = ...`)', """(OIf (fun m => (Nat.eqb (o_nodev m) (c_to (o_conn m))))
        (OIf (fun m => (negb (c_cu (o_conn m))))
            (OPushIgn (fun m => o_nodev m)
            OBreak)
            (OPushUsed 3%nat
            (OSetConn CExit (fun m => (o_from m)) FromConn
            (OSetWalk (fun m => (o_from m)) (fun m => 0) (fun m => 0)
            (OErase (fun m => ((o_from m) + 1)) (fun m => (o_to m))
            OBreak))))
        ODone)
        ODone
    ODone)"""),
    ('gen_opt_body4', 'oskel', 'body of the 4th loop over reverseConnections (after `auto connection = ...`)', """(OIf (fun m => (Nat.eqb (o_nodev m) (c_to (o_conn m))))
        (OIf (fun m => (c_cu (o_conn m)))
            (OSetExit (fun m => Some (o_conn m))
            ODone)
            OBreak
        ODone)
        ODone
    ODone)"""),
    ('gen_opt_body5', 'oskel', 'body of the 5th loop over reverseConnections (after `auto connection = ...`)', """(OIf (fun m => (Nat.eqb (o_nodev m) (c_from (o_conn m))))
        (OIf (fun m => ((is_some (o_exit m)) && (c_cb (o_conn m))))
            (OPushUsed 4%nat
            (OSetConn CExit (fun m => (o_from m)) FromExit
            (OSetConn CEnter (fun m => (o_to m)) FromConn
            (OSetWalk (fun m => (o_from m)) (fun m => 0) (fun m => 0)
            (OErase (fun m => ((o_from m) + 1)) (fun m => (o_to m))
            OBreak)))))
            (OPushIgn (fun m => o_nodev m)
            OBreak)
        ODone)
        ODone
    ODone)"""),
    ('gen_opt_block1', 'oskel', 'the 1st rewrite block', """(OSetTrip T1 (fun m => (o_from m))
    (OSetSeq VS1 CEnter (fun m => (o_from m)) (fun seq => (seq - 1))
    (OSetSeq VE1 CExit (fun m => (o_from m)) (fun seq => (seq - 1))
    (ORange T1 (fun sz m => ((sz - 1) - (o_e1 m))) (fun idx sz m => (idx <=? ((sz - 1) - (o_s1 m)))) gen_opt_body1
    ODone))))"""),
    ('gen_opt_block2', 'oskel', 'the 2nd rewrite block', """(OSetTrip T1 (fun m => (o_to m))
    (OSetSeq VS1 CEnter (fun m => (o_to m)) (fun seq => (seq - 1))
    (OSetSeq VE1 CExit (fun m => (o_to m)) (fun seq => (seq - 1))
    (ORange T1 (fun sz m => ((sz - 1) - (o_e1 m))) (fun idx sz m => (idx <=? ((sz - 1) - (o_s1 m)))) gen_opt_body2
    (OSetZ VCase (fun m => (-1))
    ODone)))))"""),
    ('gen_opt_block3', 'oskel', 'the 3rd rewrite block', """(OSetTrip T1 (fun m => (o_from m))
    (OSetSeq VS1 CEnter (fun m => (o_from m)) (fun seq => (seq - 1))
    (OSetSeq VE1 CExit (fun m => (o_from m)) (fun seq => (seq - 1))
    (ORange T1 (fun sz m => ((sz - 1) - (o_e1 m))) (fun idx sz m => (idx <=? ((sz - 1) - (o_s1 m)))) gen_opt_body3
    ODone))))"""),
    ('gen_opt_block4', 'oskel', 'the 4th rewrite block', """(OSetTrip T1 (fun m => (o_from m))
    (OSetSeq VS1 CEnter (fun m => (o_from m)) (fun seq => (seq - 1))
    (OSetSeq VE1 CExit (fun m => (o_from m)) (fun seq => (seq - 1))
    (OSetTrip T2 (fun m => (o_to m))
    (OSetSeq VS2 CEnter (fun m => (o_to m)) (fun seq => (seq - 1))
    (OSetSeq VE2 CExit (fun m => (o_to m)) (fun seq => (seq - 1))
    (OSetExit (fun m => None)
    (ORange T1 (fun sz m => ((sz - 1) - (o_e1 m))) (fun idx sz m => (idx <=? ((sz - 1) - (o_s1 m)))) gen_opt_body4
    (ORange T2 (fun sz m => ((sz - 1) - (o_e2 m))) (fun idx sz m => (idx <=? ((sz - 1) - (o_s2 m)))) gen_opt_body5
    ODone)))))))))"""),
    ('gen_opt_rewrites', 'oskel', 'what follows the detection in a pass', """(OIf (fun m => ((o_case m) =? 1))
     gen_opt_block1
      (OIf (fun m => ((o_case m) =? 2))
         gen_opt_block2
          (OIf (fun m => ((o_case m) =? 3))
             gen_opt_block3
              (OIf (fun m => ((o_case m) =? 4))
                 gen_opt_block4
                  ODone
              ODone)
          ODone)
      ODone)
  ODone)"""),
    ('gen_opt_before', 'oskel', 'the statements before the `while`', """(OClear WUsed
  (OSetZ VCase (fun m => (-1))
  (OSetStarted (fun m => false)
  (OClear WIgn
  ODone))))"""),
    ('gen_opt_continue', 'omach -> bool', 'the condition of the `while`', """fun m => ((negb (o_started m)) || ((o_case m) >=? 0))"""),
    ('gen_opt_pass', 'oskel', 'one pass of the `while`', """(OSetStarted (fun m => true)
  (OSetZ VCase (fun m => (-1))
  (OSetZ VIdx (fun m => 0)
  (OSetZ VFrom (fun m => (-1))
  (OSetZ VTo (fun m => (-1))
  (OSetNode (fun m => None)
  (OClear WLastN
  (OClear WBetween
  (ODetect
  gen_opt_rewrites)))))))))""")]


def translate(src):
    before, cond, body = parse_function(src)
    leg, cases = detection(body)
    defs = [("gen_opt_leg", "opt_leg", "which journey step is a leg, and its in-between stops", leg),
            ("gen_opt_cases", "list opt_case", "the searches inside `for (int i = 0; i < journeyStepIdx; i++)`, in source order", cases)]
    ctx = Ctx()
    bt = tree(before, ctx, 1)
    if ctx.bodies or ctx.blocks:
        raise Untranslatable("a loop over reverseConnections before the `while`")
    pt = tree(body, ctx, 1, top=True)
    for k, b in enumerate(ctx.bodies):
        defs.append(("gen_opt_body%d" % (k + 1), "oskel", "body of the %s loop over reverseConnections (after `auto connection = ...`)" % ordinal(k + 1), b.strip()))
    for k, b in enumerate(ctx.blocks):
        defs.append(("gen_opt_block%d" % (k + 1), "oskel", "the %s rewrite block" % ordinal(k + 1), b.strip()))
    if ctx.rewrites is None:
        raise Untranslatable("the detection loop was not found at the top level of the pass")
    defs.append(("gen_opt_rewrites", "oskel", "what follows the detection in a pass", ctx.rewrites.strip()))
    defs.append(("gen_opt_before", "oskel", "the statements before the `while`", bt.strip()))
    defs.append(("gen_opt_continue", "omach -> bool", "the condition of the `while`", "fun m => " + expr(cond, B, ctx.atoms())))
    defs.append(("gen_opt_pass", "oskel", "one pass of the `while`", pt.strip()))
    return defs


def ordinal(k):
    return {1: "1st", 2: "2nd", 3: "3rd"}.get(k, "%dth" % k)


def regenerate():
    repo = os.environ.get("TRV_REPO", "/repo")
    report = dict(functions={}, fallback=[])
    origin = "source"
    try:
        defs = translate(GG.strip_c_comments(open(os.path.join(repo, SRC)).read()))
    except (Untranslatable, GG.Untranslatable, ValueError, OSError) as e:
        if HAND is None:
            raise RuntimeError("optimize: %s, and no committed data to fall back to" % e)
        origin = "fallback"
        report["fallback"].append("optimize: %s" % e)
        defs = HAND
    report["functions"]["optimize"] = origin
    lines = [
        "(* GENERATED by tools/gen_optimize.py from /repo's optimize_journey.cpp (Calculator::optimizeJourney) - do not edit.",
        "   optimize: %s *)" % origin,
        "From Coq Require Import List ZArith Bool.",
        "From TrV Require Import Scan Journey.",
        "Require Import TrV.Optimize.",
        "Import ListNotations.",
        "Local Open Scope Z_scope.",
        "Local Open Scope bool_scope.",
        ""]
    for name, ty, what, body in defs:
        lines += ["(* %s *)" % what, "Definition %s : %s :=\n  %s." % (name, ty, body), ""]
    text = "\n".join(lines)
    os.makedirs(os.path.dirname(OUT), exist_ok=True)
    old = open(OUT).read() if os.path.exists(OUT) else None
    if old != text:
        with open(OUT, "w") as fh:
            fh.write(text)
    report["changed"] = old != text
    report["from_source"] = sum(1 for v in report["functions"].values() if v == "source")
    report["total"] = len(report["functions"])
    return report


if __name__ == "__main__":
    if len(sys.argv) > 1 and sys.argv[1] == "--print-hand":
        defs = translate(GG.strip_c_comments(open(os.path.join(os.environ.get("TRV_REPO", "/repo"), SRC)).read()))
        print("HAND = [\n%s]" % ",\n".join("    (%r, %r, %r, \"\"\"%s\"\"\")" % d for d in defs))
    else:
        print(json.dumps(regenerate(), indent=1))
