#!/usr/bin/env python3
"""Translator for the COLLECTION loaders: regenerates coq/gen/CollLoaders.v from the CURRENT sources of
  src/agencies_cache_fetcher.cpp      CacheFetcher::getAgencies
  src/services_cache_fetcher.cpp      CacheFetcher::getServices
  src/nodes_cache_fetcher.cpp         CacheFetcher::getNodes        (the collection file; the per-stop phase is `FRest`,
                                                                     covered by tools/gen_loader_guards.py)
  src/lines_cache_fetcher.cpp         CacheFetcher::getLines        (+ include/line.hpp: which constructor argument is which member)
  src/paths_cache_fetcher.cpp         CacheFetcher::getPaths        (+ include/path.hpp)
  src/scenarios_cache_fetcher.cpp     CacheFetcher::getScenarios
  src/data_sources_cache_fetcher.cpp  CacheFetcher::getDataSources

One group per loader (each `source` or `fallback` with a reason), each a `loader_code` (coq/CollCode.v):
  lc_frame  the function body as a statement tree: `ts.clear()`, `int ret = 0`, the file that is opened (the string that
            reaches getFilePath), `if (fd < 0)` with its errno test and what it returns, the `try` with the handlers in
            source order (declared type; what each assigns to `ret` / returns), the loop over the root's list, `close`,
            the final `return`.  Declarations without effect and log lines are dropped.
  lc_pre    statements inside `try` before the loop, apart from the reader (e.g. vectors declared once for all entries)
  lc_item   the loop body, statement by statement, after a SYMBOLIC pass over its scalar locals (a local is replaced by
            the expression it currently holds, so names of locals, `const auto&`, comments do not matter; a declaration
            whose initialiser can throw leaves an `IEval` where it stands): member assignments (`t.m = e`,
            `ts[k].m = e`), range-for loops that push looked-up references (`IForPush getter key [count-guard] vector
            pushed`), the JSON parse and segment loop of the paths, vector declarations / clear(), the insertion
            (`emplace` -> InsFirst with the constructor arguments paired with the MEMBER each initialises, read from the
            class header; `insert_or_assign` -> InsLast; `ts[k] = t` -> IStore).

Reuses the statement parser of gen_skel (`return` and `switch` are rewritten into pseudo-calls first), the local
definitions / canonical text of gen_loader_guards for the frame, the source reader and function finder of gen_scenario.

Policy (as the other gen_*.py): a loader the translator cannot read - unknown statement shape, unknown expression - is
emitted from the committed table (HAND) and reported `fallback` with the reason; what it CAN read is emitted as read and
Proofs/CollLoadersTie.v then holds or breaks."""
import os, re, sys, json

HERE = os.path.dirname(os.path.abspath(__file__))
sys.path.insert(0, HERE)
import gen_guards as GG
import gen_skel as SK
import gen_loader_guards as LG
import gen_scenario as GS
import gen_render as RN
from gen_skel import Untranslatable, flat

VERIF = os.path.dirname(HERE)
OUT = os.path.join(VERIF, "coq", "gen", "CollLoaders.v")
IDENT = r"[A-Za-z_]\w*"

LOADERS = [  # group, source, function, self collection
    ("agencies", "src/agencies_cache_fetcher.cpp", "CacheFetcher::getAgencies", "CAgencies"),
    ("services", "src/services_cache_fetcher.cpp", "CacheFetcher::getServices", "CServices"),
    ("nodes", "src/nodes_cache_fetcher.cpp", "CacheFetcher::getNodes", "CNodes"),
    ("lines", "src/lines_cache_fetcher.cpp", "CacheFetcher::getLines", "CLines"),
    ("paths", "src/paths_cache_fetcher.cpp", "CacheFetcher::getPaths", "CPaths"),
    ("scenarios", "src/scenarios_cache_fetcher.cpp", "CacheFetcher::getScenarios", "CScenarios"),
    ("datasources", "src/data_sources_cache_fetcher.cpp", "CacheFetcher::getDataSources", "CDataSources"),
]
CLASS_COLL = {"Agency": "CAgencies", "Service": "CServices", "Node": "CNodes", "Line": "CLines", "Path": "CPaths",
              "Scenario": "CScenarios", "DataSource": "CDataSources", "Mode": "CModes"}
FILES = {"agencies": "CAgencies", "services": "CServices", "nodes": "CNodes", "lines": "CLines", "paths": "CPaths",
         "scenarios": "CScenarios", "dataSources": "CDataSources"}
ROOTS = {"Agencies": "CAgencies", "Services": "CServices", "Nodes": "CNodes", "Lines": "CLines", "Paths": "CPaths",
         "Scenarios": "CScenarios", "DataSources": "CDataSources"}
HEADERS = {"Line": "include/line.hpp", "Path": "include/path.hpp", "Node": "include/node.hpp", "Agency": "include/agency.hpp",
           "Service": "include/service.hpp", "Scenario": "include/scenario.hpp", "DataSource": "include/data_source.hpp"}
GETTERS = {"getUuid": "GUuid", "getSimulationUuid": "GSimulationUuid", "getAgencyUuid": "GAgencyUuid", "getMode": "GMode",
           "getLineUuid": "GLineUuid", "getNodesUuids": "GNodesUuids", "getData": "GData",
           "getServicesUuids": "GServicesUuids", "getOnlyLinesUuids": "GOnlyLinesUuids",
           "getOnlyAgenciesUuids": "GOnlyAgenciesUuids", "getOnlyNodesUuids": "GOnlyNodesUuids",
           "getOnlyModesShortnames": "GOnlyModesShortnames", "getExceptLinesUuids": "GExceptLinesUuids",
           "getExceptAgenciesUuids": "GExceptAgenciesUuids", "getExceptNodesUuids": "GExceptNodesUuids",
           "getExceptModesShortnames": "GExceptModesShortnames", "getStartDate": "GStartDate", "getEndDate": "GEndDate",
           "getOnlyDates": "GOnlyDates", "getExceptDates": "GExceptDates"}
MEMBERS = {"uuid": "MUuid", "simulationUuid": "MSimulationUuid", "agency": "MAgency", "mode": "MMode", "line": "MLine",
           "nodesRef": "MNodesRef", "tripsRef": "MTripsRef", "segmentsTravelTimeSeconds": "MTravelTimes",
           "segmentsDistanceMeters": "MDistances", "servicesList": "MServicesList", "onlyLines": "MOnlyLines",
           "onlyAgencies": "MOnlyAgencies", "onlyNodes": "MOnlyNodes", "onlyModes": "MOnlyModes",
           "exceptLines": "MExceptLines", "exceptAgencies": "MExceptAgencies", "exceptNodes": "MExceptNodes",
           "exceptModes": "MExceptModes", "startDate": "MStartDate", "endDate": "MEndDate", "onlyDates": "MOnlyDates",
           "exceptDates": "MExceptDates"}
JFIELDS = {"distanceMeters": "JDistance", "travelTimeSeconds": "JTravelTime"}
ERRNOS = {"ENOENT": "E_NOENT", "EBADMSG": "E_BADMSG", "EINVAL": "E_INVAL"}
EMPLACE_KIND = {"emplace": "InsFirst", "try_emplace": "InsFirst", "insert_or_assign": "InsLast"}


def member_of(name):
    return MEMBERS.get(name, "MOther")


# ------------------------------------------------------------------------------------------------
# text preparation

def prepare(body):
    """`return e;` -> `__return__(e);`, `switch (c) {...}` -> `__switch__(n);` (the bodies are kept aside) so that the
    statement parser of gen_skel reads the function"""
    switches = []
    out, i = [], 0
    while i < len(body):
        ch = body[i]
        if ch in "\"'":
            j = SK.skip_string(body, i)
            out.append(body[i:j])
            i = j
            continue
        if SK.keyword_at(body, i, "switch"):
            j = SK.skip_ws(body, i + 6)
            cond, j = SK.balanced(body, j, "(", ")")
            j = SK.skip_ws(body, j)
            inner, j = SK.balanced(body, j, "{", "}")
            switches.append((cond, inner))
            out.append("__switch__(%d);" % (len(switches) - 1))
            i = j
            continue
        if SK.keyword_at(body, i, "return"):
            j = body.index(";", i)
            out.append("__return__(%s);" % body[i + 6:j].strip())
            i = j + 1
            continue
        out.append(ch)
        i += 1
    return "".join(out), switches


def whole_call(t, callee):
    """t == callee(ARGS) with the parenthesis closing at the end: -> ARGS, else None"""
    if not t.startswith(callee + "(") or not t.endswith(")"):
        return None
    inner, j = SK.balanced(t, len(callee), "(", ")")
    return inner if j == len(t) else None


def split_ternary(t):
    """top-level `c ? a : b` of whitespace-free text (`::` is not a separator) -> (c, a, b) or None"""
    depth, q = 0, -1
    for k, ch in enumerate(t):
        if ch in "([{":
            depth += 1
        elif ch in ")]}":
            depth -= 1
        elif ch == "?" and depth == 0:
            q = k
            break
    if q < 0:
        return None
    depth, k = 0, q + 1
    while k < len(t):
        ch = t[k]
        if ch in "([{":
            depth += 1
        elif ch in ")]}":
            depth -= 1
        elif ch == ":" and depth == 0:
            if t[k:k + 2] == "::":
                k += 2
                continue
            return t[:q], t[q + 1:k], t[k + 1:]
        k += 1
    return None


# ------------------------------------------------------------------------------------------------
# the loop body

class Items:
    def __init__(self, repo, fn):
        self.repo, self.fn = repo, fn
        self.vecs = {}            # vector name -> number
        self.env = {}             # scalar local -> the (whitespace-free, substituted) expression it holds
        self.uninit = set()
        self.obj = None
        self.json = None
        self.elem = None

    # -- expressions
    def subst(self, text):
        t = flat(text)

        def sub(m):
            name = m.group(0)
            pre = t[:m.start()]
            if pre.endswith(".") or pre.endswith("->") or pre.endswith("::"):
                return name
            if name in self.env:
                d = self.env[name]
                return d if LG.simple_postfix(d) else "(" + d + ")"
            return name
        return re.sub(r"(?<![\w])" + IDENT + r"(?!\w)", sub, t)

    def mentions(self, t, names):
        return any(re.search(r"(?<![\w.>:])" + re.escape(n) + r"(?!\w)", t) for n in names if n)

    def harmless(self, t, statement=False):
        fn = self.fn
        bad = set(fn.generators) | {fn.self_name, self.json, "__return__", "__switch__", "throw", "continue", "break"} | set(self.vecs)
        if statement:
            bad.add(self.obj)
        if self.mentions(t, bad):
            return False
        return re.search(r"(\.|->)at\(|from_string\(|\bparse\(|lexical_cast|\bsto[ild]\(|push_back|emplace|insert", t) is None

    def coll(self, name):
        if name in self.fn.colls:
            return self.fn.colls[name]
        raise Untranslatable("`%s` is not one of the loaded collections" % name)

    def vexp(self, t):
        t = RN.strip_parens(t)
        tern = split_ternary(t)
        if tern:
            c, a, b = (RN.strip_parens(x) for x in tern)
            neg = c.startswith("!")
            if neg:
                c = RN.strip_parens(c[1:])
            m = re.fullmatch(r"(.+)\.empty\(\)", c)
            if m:
                nil, gen = (b, a) if neg else (a, b)
                x = m.group(1)
                if re.fullmatch(r"(%s)\(\)" % "|".join(map(re.escape, self.fn.nil_generators or ["\0"])), nil) and \
                        any(whole_call(gen, g) is not None and RN.strip_parens(whole_call(gen, g)) == RN.strip_parens(x) for g in self.fn.generators):
                    return "(VOptUuidOf %s)" % self.vexp(x)
                raise Untranslatable("conditional on emptiness not understood: " + t[:70])
            m = re.fullmatch(r"(" + IDENT + r")\.count\((.+)\)(?:!=0|>0)?", c)
            if m and not neg:
                return "(VCond %s %s %s %s)" % (self.coll(m.group(1)), self.vexp(m.group(2)), self.vexp(a), self.vexp(b))
            raise Untranslatable("conditional expression not understood: " + t[:70])
        for g in self.fn.generators:
            a = whole_call(t, g)
            if a is not None:
                return "(VUuidOf %s)" % self.vexp(a)
        a = whole_call(t, "boost::gregorian::from_string")
        if a is not None:
            return "(VDateOf %s)" % self.vexp(a)
        for w in ("std::string", "std::move", "std::cref", "std::ref"):
            a = whole_call(t, w)
            if a is not None:
                return self.vexp(a)
        m = re.fullmatch(r"std::string\{(.*)\}", t)
        if m:
            return self.vexp(m.group(1))
        m = re.match(r"^(" + IDENT + r")\.at\(", t)
        if m:
            a = whole_call(t, m.group(1) + ".at")
            if a is not None:
                return "(VAt %s %s)" % (self.coll(m.group(1)), self.vexp(a))
        m = re.fullmatch(r"(" + IDENT + r")\.begin\(\)->second", t)
        if m:
            return "(VFirst %s)" % self.coll(m.group(1))
        m = re.fullmatch(re.escape(self.fn.item) + r"\.(get\w+)\(\)", t)
        if m:
            return "(VGet %s)" % GETTERS[m.group(1)] if m.group(1) in GETTERS else "VPlain"
        if self.elem and t == self.elem:
            return "VElem"
        if t in self.vecs:
            return "(VVec %d)" % self.vecs[t]
        if self.obj:
            m = re.fullmatch(re.escape(self.obj) + r"\.(" + IDENT + r")", t)
            if m:
                return "(VMember %s)" % member_of(m.group(1))
        if t in self.uninit:
            raise Untranslatable("`%s` is read before it is assigned" % t)
        if self.harmless(t):
            return "VPlain"
        raise Untranslatable("expression not understood: " + t[:80])

    def throwing(self, v):
        return re.search(r"VUuidOf|VOptUuidOf|VDateOf|VAt|VFirst", v) is not None

    def getter_of(self, t):
        m = re.fullmatch(re.escape(self.fn.item) + r"\.(get\w+)\(\)", RN.strip_parens(flat(t)))
        if not m or m.group(1) not in GETTERS:
            raise Untranslatable("not a tracked getter of the entry: " + flat(t)[:60])
        return GETTERS[m.group(1)]

    # -- constructor arguments -> members
    def ctor_members(self, cls, nargs):
        if cls not in HEADERS:
            raise Untranslatable("no header known for class " + cls)
        src = GG.strip_c_comments(open(os.path.join(self.repo, HEADERS[cls])).read())
        for m in re.finditer(r"(?<![\w~:])" + re.escape(cls) + r"\s*\(", src):
            inner, j = SK.balanced(src, m.end() - 1, "(", ")")
            k = SK.skip_ws(src, j)
            if k >= len(src) or src[k] != ":" or src[k:k + 2] == "::":
                continue
            params = []
            for a in LG.split_raw(inner):
                pm = re.search(r"(" + IDENT + r")\s*$", a)
                if not pm:
                    params = None
                    break
                params.append(pm.group(1))
            if params is None or len(params) != nargs:
                continue
            init = flat(src[k + 1:src.index("{", k)])
            out = []
            for p in params:
                im = re.search(r"(?<![\w])(" + IDENT + r")\((?:std::move\()?" + re.escape(p) + r"\)?\)", init)
                out.append(member_of(im.group(1)) if im else "MOther")
            return out
        raise Untranslatable("no constructor of %s with %d parameters and an initialiser list" % (cls, nargs))

    # -- statements
    def decl(self, text):
        """`T name`, `T name = e`, `T name{e}`, `T name(e)` -> (type, name, init or None); else None"""
        m = re.match(r"^(?:const\s+)?(?P<ty>(?:::)?[\w:]+(?:<.*>)?)(?:\s+const)?(?:\s*[&\*]\s*|\s+)(?P<name>" + IDENT + r")\s*"
                     r"(?:=\s*(?P<i1>.+)|\{(?P<i2>.*)\}|\((?P<i3>.*)\))?$", text.strip(), re.S)
        if not m or m.group("ty") in ("return", "throw", "delete", "else", "new"):
            return None
        init = next((m.group(k) for k in ("i1", "i2", "i3") if m.group(k) is not None), None)
        return flat(m.group("ty")), m.group("name"), init

    def bind(self, name, init, out):
        v = self.vexp(self.subst(init))
        self.env[name] = self.subst(init)
        self.uninit.discard(name)
        if self.throwing(v):
            out.append("IEval %s" % v)

    def stmt(self, text, out):
        if GS.is_log(text):
            return
        ft = flat(text)
        fn = self.fn
        m = re.fullmatch(r"__switch__\((\d+)\)", ft)
        if m:
            cond, inner = fn.switches[int(m.group(1))]
            if not self.harmless(self.subst(cond)) or not self.harmless(re.sub(r"\bbreak;", "", re.sub(r"\b" + re.escape(self.obj or "\0") + r"\.\w+=", "", flat(inner)))):
                raise Untranslatable("a `switch` that does more than pick a constant")
            out.append("IPlain")
            return
        m = re.fullmatch(r"(" + IDENT + r")\.clear\(\)", ft)
        if m and m.group(1) in self.vecs:
            out.append("IVecClear %d" % self.vecs[m.group(1)])
            return
        m = re.fullmatch(re.escape(fn.self_name) + r"\.(emplace|try_emplace|insert_or_assign)\((.*)\)", ft)
        if m:
            args = LG.split_args(m.group(2))
            if len(args) != 2:
                raise Untranslatable("insertion with %d arguments" % len(args))
            key = self.vexp(self.subst(args[0]))
            val = self.subst(args[1])
            if self.obj and val == self.obj:
                out.append("IEmplace %s %s []" % (EMPLACE_KIND[m.group(1)], key))
                return
            cm = re.match(r"^(" + IDENT + r")\(", val)
            inner = whole_call(val, cm.group(1)) if cm else None
            if inner is None:
                raise Untranslatable("inserted value not understood: " + val[:60])
            cls = fn.aliases.get(cm.group(1), cm.group(1))
            cargs = LG.split_args(inner)
            mems = self.ctor_members(cls, len(cargs))
            pairs = ["(%s, %s)" % (mm, self.vexp(a)) for mm, a in zip(mems, cargs)]
            out.append("IEmplace %s %s\n          [ %s ]" % (EMPLACE_KIND[m.group(1)], key, ";\n            ".join(pairs)))
            return
        m = re.fullmatch(re.escape(fn.self_name) + r"\[(.+?)\]\.(" + IDENT + r")=(.+)", ft)
        if m:
            out.append("ISet (TEntry %s) %s %s" % (self.vexp(self.subst(m.group(1))), member_of(m.group(2)), self.vexp(self.subst(m.group(3)))))
            return
        m = re.fullmatch(re.escape(fn.self_name) + r"\[(.+)\]=(" + IDENT + r")", ft)
        if m:
            if m.group(2) != self.obj:
                raise Untranslatable("stored value is not the local object")
            out.append("IStore %s" % self.vexp(self.subst(m.group(1))))
            return
        if self.obj:
            m = re.fullmatch(re.escape(self.obj) + r"\.(" + IDENT + r")=(?!=)(.+)", ft)
            if m:
                out.append("ISet TObj %s %s" % (member_of(m.group(1)), self.vexp(self.subst(m.group(2)))))
                return
        m = re.fullmatch(r"(" + IDENT + r")=(?!=)(.+)", ft)
        if m and (m.group(1) in self.env or m.group(1) in self.uninit):
            self.bind(m.group(1), m.group(2), out)
            return
        d = self.decl(text)
        if d:
            ty, name, init = d
            if re.match(r"^std::vector<", ty):
                if init not in (None, ""):
                    raise Untranslatable("vector %s declared with contents" % name)
                if name not in self.vecs:
                    self.vecs[name] = len(self.vecs)
                out.append("IVecDecl %d" % self.vecs[name])
                return
            if init is not None and "json::parse" in flat(init):
                a = whole_call(flat(init), "nlohmann::json::parse")
                if a is None:
                    raise Untranslatable("JSON parse not understood: " + flat(init)[:60])
                self.json = name
                out.append("IJson %s" % self.getter_of(self.subst(a)))
                return
            if fn.aliases.get(ty, ty) == fn.self_class and init in (None, ""):
                self.obj = name
                out.append("IObjDecl")
                return
            if init is None or init.strip() == "":
                self.uninit.add(name)
                self.env.pop(name, None)
                return
            self.bind(name, init, out)
            return
        if self.harmless(self.subst(ft), statement=True):
            out.append("IPlain")
            return
        raise Untranslatable("statement not understood: " + ft[:80])

    def count_guard(self, cond):
        c = RN.strip_parens(self.subst(cond))
        m = re.fullmatch(r"(" + IDENT + r")\.count\((.+)\)(?:!=0|>0|>=1)?", c)
        if m:
            return self.coll(m.group(1)), self.vexp(m.group(2))
        m = re.fullmatch(r"(" + IDENT + r")\.find\((.+)\)!=(" + IDENT + r")\.end\(\)", c)
        if m and m.group(1) == m.group(3):
            return self.coll(m.group(1)), self.vexp(m.group(2))
        raise Untranslatable("loop guard not understood: " + c[:70])

    def push_of(self, text):
        m = re.fullmatch(r"(" + IDENT + r")\.(?:push_back|emplace_back)\((.+)\)", flat(text))
        if not m or m.group(1) not in self.vecs:
            return None
        return self.vecs[m.group(1)], self.vexp(self.subst(m.group(2)))

    def range_loop(self, header, body, out):
        m = re.match(r"^(.*?)(?<![\w:])(" + IDENT + r")\s*:(?!:)\s*(.+)$", header.strip(), re.S)
        if not m:
            raise Untranslatable("loop header: " + flat(header)[:60])
        g = self.getter_of(self.subst(m.group(3)))
        saved = dict(self.env), set(self.uninit), self.elem
        self.elem = m.group(2)
        self.env.pop(self.elem, None)
        try:
            scratch, effect = [], None
            for nd in body:
                if effect is not None:
                    raise Untranslatable("statements after the push in the loop over " + g)
                if nd[0] == "stmt":
                    p = self.push_of(nd[1])
                    if p:
                        v, e = p
                        km = re.fullmatch(r"\(VAt \w+ (.*)\)", e)
                        effect = "IForPush %s %s None %d %s" % (g, km.group(1) if km else "VElem", v, e)
                    else:
                        self.stmt(nd[1], scratch)
                        if any(not s.startswith("IEval") for s in scratch):
                            raise Untranslatable("statement in the loop over %s: %s" % (g, flat(nd[1])[:60]))
                elif nd[0] == "if" and not nd[3]:
                    c, k = self.count_guard(nd[1])
                    th = [x for x in nd[2] if not (x[0] == "stmt" and GS.is_log(x[1]))]
                    p = self.push_of(th[0][1]) if len(th) == 1 and th[0][0] == "stmt" else None
                    if not p:
                        raise Untranslatable("guarded body in the loop over %s is not one push" % g)
                    effect = "IForPush %s %s (Some %s) %d %s" % (g, k, c, p[0], p[1])
                else:
                    raise Untranslatable("`%s` in the loop over %s" % (nd[0], g))
            if effect is None:
                raise Untranslatable("the loop over %s pushes nothing" % g)
            out.append(effect)
        finally:
            self.env, self.uninit, self.elem = saved

    def seg_loop(self, header, body, out):
        parts = header.split(";")
        m = re.match(r"^\s*(?:[\w:]+\s+)+(" + IDENT + r")\s*=\s*0\s*$", parts[0])
        if len(parts) != 3 or not m:
            raise Untranslatable("counted loop: " + flat(header)[:60])
        i = m.group(1)
        cm = re.fullmatch(re.escape(i) + r"<(" + IDENT + r")\.size\(\)", flat(parts[1]))
        if not cm or cm.group(1) not in self.vecs or flat(parts[2]) not in (i + "++", "++" + i):
            raise Untranslatable("counted loop: " + flat(header)[:60])
        if not self.json:
            raise Untranslatable("counted loop without parsed JSON")
        pushes = []
        for nd in body:
            if nd[0] == "stmt" and GS.is_log(nd[1]):
                continue
            if nd[0] != "if" or nd[3]:
                raise Untranslatable("statement in the segment loop")
            elem = r"%s\[\"segments\"\]\[%s\]\[\"(\w+)\"\]" % (re.escape(self.json), re.escape(i))
            c = re.fullmatch(elem + r"!=nullptr", RN.strip_parens(flat(nd[1])))
            th = [x for x in nd[2] if not (x[0] == "stmt" and GS.is_log(x[1]))]
            p = re.fullmatch(r"(" + IDENT + r")\.push_back\(" + elem + r"\)", flat(th[0][1])) if len(th) == 1 and th[0][0] == "stmt" else None
            if not c or not p or p.group(1) not in self.vecs or p.group(2) != c.group(1):
                raise Untranslatable("segment test not understood: " + flat(nd[1])[:60])
            pushes.append("(%s, %d)" % (JFIELDS.get(c.group(1), "JOtherField"), self.vecs[p.group(1)]))
        out.append("ISegLoop %d [%s]" % (self.vecs[cm.group(1)], "; ".join(pushes)))

    def nodes(self, nodes, out):
        for nd in nodes:
            if nd[0] == "stmt":
                self.stmt(nd[1], out)
            elif nd[0] == "for":
                if ";" in nd[1]:
                    self.seg_loop(nd[1], nd[2], out)
                else:
                    self.range_loop(nd[1], nd[2], out)
            elif nd[0] == "if" and not nd[3]:
                c = RN.strip_parens(self.subst(nd[1]))
                m = re.fullmatch(r"(.+)\.(?:length|size)\(\)>0", c) or re.fullmatch(r"!(.+)\.empty\(\)", c)
                th = [x for x in nd[2] if not (x[0] == "stmt" and GS.is_log(x[1]))]
                sub = []
                if m and len(th) == 1 and th[0][0] == "stmt":
                    self.stmt(th[0][1], sub)
                sm = re.fullmatch(r"ISet (TObj|\(TEntry .*\)) (\w+) (.*)", sub[0]) if len(sub) == 1 else None
                if not sm:
                    raise Untranslatable("`if` in the entry not understood: " + c[:60])
                out.append("ISetIfNonEmpty %s %s %s %s" % (sm.group(1), sm.group(2), self.vexp(m.group(1)), sm.group(3)))
            else:
                raise Untranslatable("`%s` in the entry" % nd[0])


# ------------------------------------------------------------------------------------------------
# the frame

class Fn:
    def __init__(self, repo, rel, name, self_coll):
        self.repo, self.self_coll = repo, self_coll
        src = GS.read_source(repo, rel)
        src = "\n".join(l for l in src.split("\n") if not l.lstrip().startswith("#"))
        params, body = GS.find_function(src, name)
        self.colls, self.self_name, self.self_class = {}, None, None
        for p in LG.split_raw(params):
            m = re.match(r"^(const\s+)?std::map<\s*[\w:]+\s*,\s*(" + IDENT + r")\s*>\s*&\s*(" + IDENT + r")$", p.strip())
            if not m:
                continue
            if m.group(1):
                if m.group(2) in CLASS_COLL:
                    self.colls[m.group(3)] = CLASS_COLL[m.group(2)]
            else:
                if self.self_name:
                    raise Untranslatable("two maps are filled")
                self.self_name, self.self_class = m.group(3), m.group(2)
        if not self.self_name or CLASS_COLL.get(self.self_class) != self_coll:
            raise Untranslatable("the map being filled is not a map of the expected class")
        self.body, self.switches = prepare(body)
        self.aliases = dict(re.findall(r"\busing\s+(" + IDENT + r")\s*=\s*([\w:]+)\s*;", self.body))
        self.aliases = {k: v.split("::")[-1] if k != "cT" and "::" not in v else v for k, v in self.aliases.items()}
        self.generators = re.findall(r"\bboost::uuids::string_generator\s+(" + IDENT + r")\s*;", self.body)
        self.nil_generators = re.findall(r"\bboost::uuids::nil_generator\s+(" + IDENT + r")\s*;", self.body)
        self.defs = LG.definitions(self.body)
        self.tree = SK.parse_list(self.body)
        self.item = None
        self.fd = None
        self.ret = None
        self.pre, self.items = [], []
        self.itr = Items(repo, self)

    def canon(self, t):
        return LG.canon(t, self.defs)

    def rval(self, t):
        c = RN.strip_parens(flat(t))
        if self.ret and c == self.ret:
            return "RvRet"
        c = RN.strip_parens(self.canon(c))
        if c == "0":
            return "RvZero"
        if c == "-errno":
            return "RvNegErrno"
        m = re.fullmatch(r"-(E[A-Z]+)", c)
        if m:
            return "(RvNeg %s)" % ERRNOS.get(m.group(1), "E_OTHER")
        return "RvOther"

    def handler_decl(self, d):
        d = flat(d)
        if d == "...":
            return "XAll"
        if re.fullmatch(r"(const)?kj::Exception(const)?&?\w*", d):
            return "XKj"
        if re.fullmatch(r"(const)?std::exception(const)?&?\w*", d):
            return "XStd"
        raise Untranslatable("handler for " + d)

    def stmts(self, nodes, in_try=False, top=False):
        out = []
        seen_loop = False
        for idx, nd in enumerate(nodes):
            if nd[0] == "stmt":
                text = nd[1]
                ft = flat(text)
                if GS.is_log(text) or ft.startswith("using"):
                    continue
                m = re.fullmatch(r"__return__\((.*)\)", ft)
                if m:
                    out.append("FReturn %s" % self.rval(m.group(1)))
                    continue
                if ft == self.self_name + ".clear()":
                    out.append("FClear")
                    continue
                if self.fd and ft == "close(%s)" % self.fd:
                    out.append("FClose")
                    continue
                if self.ret:
                    m = re.fullmatch(re.escape(self.ret) + r"=(?!=)(.+)", ft)
                    if m:
                        out.append("FSetRet %s" % self.rval(m.group(1)))
                        continue
                if "PackedFdMessageReader" in ft:
                    if not in_try and self.fd and self.fd in ft:
                        pass
                    if not self.fd or not re.search(r"\(" + re.escape(self.fd) + r"[,)]", ft):
                        raise Untranslatable("the reader is not opened on the collection file")
                    out.append("FReader")
                    continue
                if ".getRoot<" in ft:
                    continue
                d = self.itr.decl(text)
                if d:
                    ty, name, init = d
                    if ty == "int" and init is not None:
                        ci = self.canon(init)
                        if "open(" in ci:
                            fm = re.search(r"getFilePath\(\(*\"(\w+)\"", ci)
                            if not fm or fm.group(1) not in FILES or "\".capnpbin\"" not in ci:
                                raise Untranslatable("opened file not understood: " + ci[:80])
                            self.fd = name
                            out.append("FOpen %s" % FILES[fm.group(1)])
                            continue
                        if RN.strip_parens(ci) == "errno":
                            continue
                        if top and not in_try and self.ret is None and re.fullmatch(r"-?\w+", flat(init)):
                            self.ret = name
                            out.append("FRetDecl %s" % self.rval(init))
                            continue
                    if in_try and not seen_loop:
                        self.itr.stmt(text, self.pre)
                        continue
                    if self.itr.harmless(flat(init or ""), statement=True) and not re.search(r"\bopen\(|errno", flat(init or "")):
                        continue
                    raise Untranslatable("declaration not understood: " + ft[:70])
                if in_try and not seen_loop:
                    self.itr.stmt(text, self.pre)
                    continue
                raise Untranslatable("statement of the frame not understood: " + ft[:70])
            elif nd[0] == "if":
                c = RN.strip_parens(self.canon(nd[1]))
                fdc = RN.strip_parens(self.canon(self.fd)) if self.fd else None
                if self.fd and (c in (self.fd + "<0", "0>" + self.fd, self.fd + "==-1", self.fd + "<=-1") or
                                c in (fdc + "<0", "(" + fdc + ")<0")):
                    if nd[3]:
                        raise Untranslatable("`else` of the open test")
                    out.append(("FIfOpenFailed", self.stmts(nd[2])))
                elif c in ("errno==ENOENT", "ENOENT==errno"):
                    out.append(("FIfEnoent", self.stmts(nd[2]), self.stmts(nd[3])))
                elif c in ("errno!=ENOENT", "ENOENT!=errno"):
                    out.append(("FIfEnoent", self.stmts(nd[3]), self.stmts(nd[2])))
                else:
                    raise Untranslatable("test of the frame not understood: " + c[:70])
            elif nd[0] == "try":
                body = self.stmts(nd[1], in_try=True)
                hs = [(self.handler_decl(d), self.stmts(hb)) for d, hb in nd[2]]
                out.append(("FTry", body, hs))
            elif nd[0] == "for":
                if top and self.self_coll == "CNodes" and any(x == "FClose" for x in out):
                    out.append("FRest")          # the per-stop phase (tools/gen_loader_guards.py)
                    return out
                if not in_try and False:
                    pass
                m = re.match(r"^(.*?)(?<![\w:])(" + IDENT + r")\s*:(?!:)\s*(.+)$", nd[1].strip(), re.S)
                if not m or seen_loop:
                    raise Untranslatable("loop of the frame not understood: " + flat(nd[1])[:60])
                rng = self.canon(m.group(3))
                rm = re.search(r"\.getRoot<[\w:]+>\(\)\)?\.get(\w+)\(\)$", rng)
                if not rm or rm.group(1) not in ROOTS:
                    raise Untranslatable("the loop does not run over a list of the root: " + rng[:70])
                self.item = m.group(2)
                seen_loop = True
                self.itr.nodes(nd[2], self.items)
                out.append("FLoop %s" % ROOTS[rm.group(1)])
            else:
                raise Untranslatable("`%s` in the frame" % nd[0])
        return out


def emit_frame(nodes, ind):
    pad = " " * ind
    if not nodes:
        return "[]"
    parts = []
    for nd in nodes:
        if isinstance(nd, str):
            parts.append(nd)
        elif nd[0] == "FIfOpenFailed":
            parts.append("FIfOpenFailed\n%s  %s" % (pad, emit_frame(nd[1], ind + 4)))
        elif nd[0] == "FIfEnoent":
            parts.append("FIfEnoent %s %s" % (emit_frame(nd[1], ind + 4), emit_frame(nd[2], ind + 4)))
        elif nd[0] == "FTry":
            hs = [("(%s, %s)" % (d, emit_frame(b, ind + 8))) for d, b in nd[2]]
            parts.append("FTry\n%s  %s\n%s  [ %s ]" % (pad, emit_frame(nd[1], ind + 4), pad, (";\n%s    " % pad).join(hs)))
    return "[ " + (";\n%s  " % pad).join(parts) + " ]"


def translate_loader(repo, group, rel, name, self_coll):
    fn = Fn(repo, rel, name, self_coll)
    frame = fn.stmts(fn.tree, top=True)
    body = "{| lc_frame :=\n      %s;\n     lc_pre := %s;\n     lc_item :=\n      %s |}" % (
        emit_frame(frame, 6), GS.coq_list(fn.pre, "        "), GS.coq_list(fn.items, "        "))
    return [("gen_%s_loader" % group, "loader_code", "%s (%s)" % (name, rel), body)]


# ------------------------------------------------------------------------------------------------
# the committed tables (printed by `gen_coll_loaders.py --print-hand` on the unchanged tree)
HAND = {
    'agencies': [
        ('gen_agencies_loader', 'loader_code', 'CacheFetcher::getAgencies (src/agencies_cache_fetcher.cpp)', """{| lc_frame :=
      [ FRetDecl RvZero;
        FClear;
        FOpen CAgencies;
        FIfOpenFailed
        [ FIfEnoent [] [];
            FReturn RvNegErrno ];
        FTry
        [ FReader;
            FLoop CAgencies ]
        [ (XKj, [ FSetRet (RvNeg E_BADMSG) ]);
          (XAll, [ FSetRet (RvNeg E_INVAL) ]) ];
        FClose;
        FReturn RvRet ];
     lc_pre := [];
     lc_item :=
      [ IObjDecl;
        ISet TObj MUuid (VUuidOf (VGet GUuid));
        ISet TObj MOther VPlain;
        ISet TObj MOther VPlain;
        ISet TObj MOther VPlain;
        ISet TObj MSimulationUuid (VOptUuidOf (VGet GSimulationUuid));
        IStore (VMember MUuid) ] |}"""),
    ],
    'services': [
        ('gen_services_loader', 'loader_code', 'CacheFetcher::getServices (src/services_cache_fetcher.cpp)', """{| lc_frame :=
      [ FRetDecl RvZero;
        FClear;
        FOpen CServices;
        FIfOpenFailed
        [ FIfEnoent [] [];
            FReturn RvNegErrno ];
        FTry
        [ FReader;
            FLoop CServices ]
        [ (XKj, [ FSetRet (RvNeg E_BADMSG) ]);
          (XAll, [ FSetRet (RvNeg E_INVAL) ]) ];
        FClose;
        FReturn RvRet ];
     lc_pre := [];
     lc_item :=
      [ IVecDecl 0;
        IVecDecl 1;
        IObjDecl;
        ISet TObj MUuid (VUuidOf (VGet GUuid));
        ISet TObj MOther VPlain;
        ISet TObj MOther VPlain;
        ISet TObj MSimulationUuid (VOptUuidOf (VGet GSimulationUuid));
        ISet TObj MOther VPlain;
        ISet TObj MOther VPlain;
        ISet TObj MOther VPlain;
        ISet TObj MOther VPlain;
        ISet TObj MOther VPlain;
        ISet TObj MOther VPlain;
        ISet TObj MOther VPlain;
        ISetIfNonEmpty TObj MStartDate (VGet GStartDate) (VDateOf (VGet GStartDate));
        ISetIfNonEmpty TObj MEndDate (VGet GEndDate) (VDateOf (VGet GEndDate));
        IForPush GOnlyDates VElem None 0 (VDateOf VElem);
        IForPush GExceptDates VElem None 1 (VDateOf VElem);
        ISet TObj MOnlyDates (VVec 0);
        ISet TObj MExceptDates (VVec 1);
        IStore (VMember MUuid) ] |}"""),
    ],
    'nodes': [
        ('gen_nodes_loader', 'loader_code', 'CacheFetcher::getNodes (src/nodes_cache_fetcher.cpp)', """{| lc_frame :=
      [ FClear;
        FOpen CNodes;
        FIfOpenFailed
        [ FIfEnoent [] [];
            FReturn RvNegErrno ];
        FTry
        [ FReader;
            FLoop CNodes ]
        [ (XKj, [ FClose;
                FReturn (RvNeg E_BADMSG) ]);
          (XAll, [ FClose;
                FReturn (RvNeg E_INVAL) ]) ];
        FClose;
        FRest ];
     lc_pre := [];
     lc_item :=
      [ IPlain;
        IPlain;
        IEmplace InsFirst (VUuidOf (VGet GUuid))
          [ (MUuid, (VUuidOf (VGet GUuid)));
            (MOther, VPlain);
            (MOther, VPlain);
            (MOther, VPlain);
            (MOther, VPlain);
            (MOther, VPlain) ] ] |}"""),
    ],
    'lines': [
        ('gen_lines_loader', 'loader_code', 'CacheFetcher::getLines (src/lines_cache_fetcher.cpp)', """{| lc_frame :=
      [ FRetDecl RvZero;
        FClear;
        FOpen CLines;
        FIfOpenFailed
        [ FIfEnoent [] [];
            FReturn RvNegErrno ];
        FTry
        [ FReader;
            FLoop CLines ]
        [ (XKj, [ FSetRet (RvNeg E_BADMSG) ]);
          (XStd, [ FSetRet (RvNeg E_INVAL) ]);
          (XAll, [ FSetRet (RvNeg E_INVAL) ]) ];
        FClose;
        FReturn RvRet ];
     lc_pre := [];
     lc_item :=
      [ IEmplace InsFirst (VUuidOf (VGet GUuid))
          [ (MUuid, (VUuidOf (VGet GUuid)));
            (MAgency, (VAt CAgencies (VUuidOf (VGet GAgencyUuid))));
            (MMode, (VAt CModes (VGet GMode)));
            (MOther, VPlain);
            (MOther, VPlain);
            (MOther, VPlain);
            (MOther, VPlain) ] ] |}"""),
    ],
    'paths': [
        ('gen_paths_loader', 'loader_code', 'CacheFetcher::getPaths (src/paths_cache_fetcher.cpp)', """{| lc_frame :=
      [ FRetDecl RvZero;
        FClear;
        FOpen CPaths;
        FIfOpenFailed
        [ FIfEnoent [] [];
            FReturn RvNegErrno ];
        FTry
        [ FReader;
            FLoop CPaths ]
        [ (XKj, [ FSetRet (RvNeg E_BADMSG) ]);
          (XStd, [ FSetRet (RvNeg E_INVAL) ]);
          (XAll, [ FSetRet (RvNeg E_INVAL) ]) ];
        FClose;
        FReturn RvRet ];
     lc_pre := [];
     lc_item :=
      [ IVecDecl 0;
        IVecDecl 1;
        IVecDecl 2;
        IVecDecl 3;
        IEval (VUuidOf (VGet GUuid));
        IForPush GNodesUuids (VUuidOf VElem) None 0 (VAt CNodes (VUuidOf VElem));
        IJson GData;
        ISegLoop 0 [(JDistance, 2); (JTravelTime, 3)];
        IEmplace InsFirst (VUuidOf (VGet GUuid))
          [ (MUuid, (VUuidOf (VGet GUuid)));
            (MLine, (VAt CLines (VUuidOf (VGet GLineUuid))));
            (MOther, VPlain);
            (MOther, VPlain);
            (MNodesRef, (VVec 0));
            (MTripsRef, (VVec 1));
            (MTravelTimes, (VVec 3));
            (MDistances, (VVec 2)) ] ] |}"""),
    ],
    'scenarios': [
        ('gen_scenarios_loader', 'loader_code', 'CacheFetcher::getScenarios (src/scenarios_cache_fetcher.cpp)', """{| lc_frame :=
      [ FRetDecl RvZero;
        FClear;
        FOpen CScenarios;
        FIfOpenFailed
        [ FIfEnoent [] [];
            FReturn RvNegErrno ];
        FTry
        [ FReader;
            FLoop CScenarios ]
        [ (XKj, [ FSetRet (RvNeg E_BADMSG) ]);
          (XAll, [ FSetRet (RvNeg E_INVAL) ]) ];
        FClose;
        FReturn RvRet ];
     lc_pre := [];
     lc_item :=
      [ IVecDecl 0;
        IVecDecl 1;
        IVecDecl 2;
        IVecDecl 3;
        IVecDecl 4;
        IVecDecl 5;
        IVecDecl 6;
        IVecDecl 7;
        IVecDecl 8;
        IEval (VUuidOf (VGet GUuid));
        ISet (TEntry (VUuidOf (VGet GUuid))) MUuid (VUuidOf (VGet GUuid));
        ISet (TEntry (VUuidOf (VGet GUuid))) MOther VPlain;
        ISet (TEntry (VUuidOf (VGet GUuid))) MSimulationUuid (VOptUuidOf (VGet GSimulationUuid));
        IForPush GServicesUuids (VUuidOf VElem) (Some CServices) 0 (VAt CServices (VUuidOf VElem));
        ISet (TEntry (VUuidOf (VGet GUuid))) MServicesList (VVec 0);
        IForPush GOnlyLinesUuids (VUuidOf VElem) (Some CLines) 1 (VAt CLines (VUuidOf VElem));
        ISet (TEntry (VUuidOf (VGet GUuid))) MOnlyLines (VVec 1);
        IForPush GOnlyAgenciesUuids (VUuidOf VElem) (Some CAgencies) 2 (VAt CAgencies (VUuidOf VElem));
        ISet (TEntry (VUuidOf (VGet GUuid))) MOnlyAgencies (VVec 2);
        IForPush GOnlyNodesUuids (VUuidOf VElem) (Some CNodes) 3 (VAt CNodes (VUuidOf VElem));
        ISet (TEntry (VUuidOf (VGet GUuid))) MOnlyNodes (VVec 3);
        IForPush GOnlyModesShortnames VElem (Some CModes) 4 (VAt CModes VElem);
        ISet (TEntry (VUuidOf (VGet GUuid))) MOnlyModes (VVec 4);
        IForPush GExceptLinesUuids (VUuidOf VElem) (Some CLines) 5 (VAt CLines (VUuidOf VElem));
        ISet (TEntry (VUuidOf (VGet GUuid))) MExceptLines (VVec 5);
        IForPush GExceptAgenciesUuids (VUuidOf VElem) (Some CAgencies) 6 (VAt CAgencies (VUuidOf VElem));
        ISet (TEntry (VUuidOf (VGet GUuid))) MExceptAgencies (VVec 6);
        IForPush GExceptNodesUuids (VUuidOf VElem) (Some CNodes) 7 (VAt CNodes (VUuidOf VElem));
        ISet (TEntry (VUuidOf (VGet GUuid))) MExceptNodes (VVec 7);
        IForPush GExceptModesShortnames VElem (Some CModes) 8 (VAt CModes VElem);
        ISet (TEntry (VUuidOf (VGet GUuid))) MExceptModes (VVec 8) ] |}"""),
    ],
    'datasources': [
        ('gen_datasources_loader', 'loader_code', 'CacheFetcher::getDataSources (src/data_sources_cache_fetcher.cpp)', """{| lc_frame :=
      [ FRetDecl RvZero;
        FClear;
        FOpen CDataSources;
        FIfOpenFailed
        [ FIfEnoent [] [];
            FReturn RvNegErrno ];
        FTry
        [ FReader;
            FLoop CDataSources ]
        [ (XKj, [ FSetRet (RvNeg E_BADMSG) ]);
          (XAll, [ FSetRet (RvNeg E_INVAL) ]) ];
        FClose;
        FReturn RvRet ];
     lc_pre := [];
     lc_item :=
      [ IVecDecl 0;
        IObjDecl;
        ISet TObj MUuid (VUuidOf (VGet GUuid));
        ISet TObj MOther VPlain;
        IPlain;
        IStore (VMember MUuid) ] |}"""),
    ],
}


def translate_all(repo):
    out = []
    for group, rel, name, self_coll in LOADERS:
        try:
            out.append((group, translate_loader(repo, group, rel, name, self_coll), None))
        except (Untranslatable, LG.Untranslatable, GG.Untranslatable, ValueError, KeyError, IndexError, OSError, AttributeError, TypeError) as e:
            out.append((group, None, "%s: %s%s" % (group, "" if isinstance(e, Untranslatable) else type(e).__name__ + ": ", e)))
    return out


def regenerate():
    repo = os.environ.get("TRV_REPO", "/repo")
    report = dict(functions={}, fallback=[])
    defs = []
    for name, ds, err in translate_all(repo):
        if ds is None:
            if HAND is None or name not in HAND:
                raise RuntimeError("collection loaders: %s, and no committed table to fall back to" % err)
            report["fallback"].append(err)
            report["functions"][name] = "fallback"
            ds = HAND[name]
        else:
            report["functions"][name] = "source"
        defs += [tuple(d) for d in ds]
    lines = [
        "(* GENERATED by tools/gen_coll_loaders.py from /repo's agencies / services / nodes / lines / paths / scenarios / data_sources",
        "   _cache_fetcher.cpp (and line.hpp, path.hpp, node.hpp for the constructors) - do not edit.",
        "   %s *)" % ", ".join("%s: %s" % kv for kv in report["functions"].items()),
        "From Coq Require Import List ZArith Bool.",
        "Require Import TrV.CollCode.",
        "Import ListNotations.",
        ""]
    for name, ty, what, body in defs:
        lines += ["(* %s *)" % what, "Definition %s : %s :=\n  %s." % (name, ty, body), ""]
    text = "\n".join(lines)
    os.makedirs(os.path.dirname(OUT), exist_ok=True)
    old = open(OUT).read() if os.path.exists(OUT) else None
    if old != text:
        with open(OUT, "w") as fh:
            fh.write(text)
    report["changed"] = old != text
    report["from_source"] = sum(1 for v in report["functions"].values() if v == "source")
    report["total"] = len(report["functions"])
    report["policy"] = "source" if report["from_source"] == report["total"] else "fallback"
    report["reason"] = "; ".join(report["fallback"])
    return report


if __name__ == "__main__":
    if len(sys.argv) > 1 and sys.argv[1] == "--print-hand":
        groups = translate_all(os.environ.get("TRV_REPO", "/repo"))
        bad = [err for _, ds, err in groups if ds is None]
        if bad:
            sys.exit("cannot print the committed tables: " + "; ".join(bad))
        print("HAND = {")
        for name, ds, _ in groups:
            print("    %r: [" % name)
            for d in ds:
                print("        (%r, %r, %r, \"\"\"%s\"\"\")," % d)
            print("    ],")
        print("}")
    else:
        print(json.dumps(regenerate(), indent=1))
