#!/bin/sh
# usage: tools/seedcheck.sh <seed id> <dir with patch.diff run_demo.sh ...> <check ids...>
# Confirms a seeded change in scratch copies of /repo (never /repo itself): existing tests pass with it, the
# demonstration fails with it and passes without it; then runs the named checks against the patched copy.
ID=$1; SRC=$(readlink -f "$2"); shift; shift
P=/var/tmp/trv-seed-$ID-patched; O=/var/tmp/trv-seed-$ID-pristine
rm -rf $P $O
rsync -a --exclude .git /repo/ $O/
rsync -a --exclude .git /repo/ $P/
( cd $P && patch -p1 -s < $SRC/patch.diff ) || { echo "PATCH-FAILED"; exit 2; }
echo "--- existing tests on the patched copy"
( cd $P && make -j16 check 2>&1 | grep -E "^(PASS|FAIL):" )
echo "--- demo on pristine copy"
( cd $SRC && timeout 900 bash ./run_demo.sh $O > /tmp/seed-demo-$ID-pristine.log 2>&1; echo "exit=$?" )
echo "--- demo on patched copy"
( cd $SRC && timeout 900 bash ./run_demo.sh $P > /tmp/seed-demo-$ID-patched.log 2>&1; echo "exit=$?"; tail -3 /tmp/seed-demo-$ID-patched.log )
echo "--- checks against the patched copy"
cd /verif
for c in "$@"; do
  TRV_REPO=$P ./check $c --tier quick 2>&1 | grep -E "VIOLATION|quick:" | head -2
done
rm -rf $P $O
