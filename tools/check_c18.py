#!/usr/bin/env python3
"""C18: every HTTP request gets one well-formed, correctly classified response.
Proof: Params.v theorems (totality, classification, defaults, normalisation, order independence,
/updateCache) + hour-index totality.  Tie: L1 (parameter factories called directly on (key,value) lists)
and L3 (raw HTTP against the real binary: status line, Content-Length, JSON body, errorCode, echoed
query; liveness after every request; /updateCache name handling; ready and not-ready data)."""
import re, os, sys, time, json, shutil, itertools, urllib.parse
import build, checklib as cl, run, gen, l3
from check_c12 import cl_open

SCEN = lambda i: l3.uuid_of(l3.K_SCEN, i)
VALUES = {
    "time_of_trip": ["36000", "0", "-5", "abc", "", "12abc", " 7", "+5", "86399", "86400", "115199", "115200", "118799", "118800", "2147483647",
                     "2147483648", "-2147483649", "1e9", "3.7", "-0"],
    "time_type": ["0", "1", "2", "", "x"],
    "min_waiting_time": ["180", "0", "-1", "abc", "", "2147483647", "2147483648", "12abc", " 30", "+5", "40000"],
    "max_travel_time": ["3600", "0", "-1", "abc", "", "2147483647", "2147483648", "1"],
    "max_access_travel_time": ["600", "0", "-7", "zz", "2147483647", "1"],
    "max_egress_travel_time": ["600", "0", "-7", "", "99999999999", "1"],
    "max_transfer_travel_time": ["300", "0", "-1", "x1", "1"],
    "max_first_waiting_time": ["900", "0", "-1", "abc", "1"],
    "origin": ["-73.0,45.0001", "abc", "", "1,2,3", "1", ",", "1e999,2", " 1, 2", "inf,nan", "0x10,1", "-73.0;45.0", "1,", ",2", ".5,.5", "1.5e2,2", "1e-999,1"],
    "destination": ["-73.0,45.0002", "x,y", "", "1,2,3", "7", "-73,45", "1e400,1"],
    "place": ["-73.0,45.0001", "abc", "", "1,2,3", "1", "1e999,2", ".5,.5"],
    "scenario_id": [SCEN(1), SCEN(4), l3.uuid_of(l3.K_SCEN, 77), "", "abc", "1d569191", "0123456789abcdef0123456789abcdef"],
    "alternatives": ["true", "1", "false", "0", "TRUE", ""],
    "unknown_key": ["1"],
}
ROUTE_KEYS = ["origin", "destination", "scenario_id", "time_of_trip", "time_type", "min_waiting_time", "max_travel_time", "max_access_travel_time",
              "max_egress_travel_time", "max_transfer_travel_time", "max_first_waiting_time", "alternatives"]
ACCESS_KEYS = ["place"] + ROUTE_KEYS[2:11]
ENUM = ["MISSING_PARAM_SCENARIO", "MISSING_PARAM_ORIGIN", "MISSING_PARAM_DESTINATION", "MISSING_PARAM_TIME_OF_TRIP", "MISSING_PARAM_PLACE",
        "EMPTY_SCENARIO", "INVALID_ORIGIN", "INVALID_DESTINATION", "INVALID_PLACE", "INVALID_NUMERICAL_DATA"]
DOCUMENTED = set(ENUM) | {"PARAM_ERROR_UNKNOWN"}


def hexs(s):
    return s.encode().hex() if s else "-"


def gen_queries(rng, n):
    """[(kind, [(key, value)])] : a valid base query with 0-3 mutations: absent / class value / duplicated key"""
    out = []
    for _ in range(n):
        kind = "route" if rng.chance(0.6) else "access"
        keys = ROUTE_KEYS if kind == "route" else ACCESS_KEYS
        kv = {k: VALUES[k][0] for k in keys}
        order = list(keys)
        dups = []
        for _m in range(rng.choice([0, 1, 1, 1, 2, 2, 3])):
            k = rng.choice(keys + (["unknown_key"] if rng.chance(0.1) else []))
            c = rng.randint(0, 3)
            if c == 0:
                kv.pop(k, None)
            elif c in (1, 2):
                kv[k] = rng.choice(VALUES[k])
                if k not in order:
                    order.append(k)
            else:
                dups.append((k, rng.choice(VALUES[k])))
        # optional parameters are often simply omitted
        for k in keys[4:]:
            if rng.chance(0.35):
                kv.pop(k, None)
        lst = [(k, kv[k]) for k in order if k in kv]
        lst = rng.sample(lst, len(lst))
        out.append((kind, lst, dups))
    return out


def small_dataset():
    ds = gen.gen_dataset(gen.Rng(11), dict(gen.PROFILES["opt"], base=10))
    ds.scens = [sc for sc in ds.scens if sc[0] != 4]               # the generator's own fourth scenario is replaced by
    ds.scens.append((4, [[], [], [], [], [], [], [], [], []]))     # a scenario without services: EMPTY_SCENARIO
    ds.scens.append((5, [[1, 2], [], [], [], [], [], [], [1, 2], []]))   # services named, but every agency excepted: NO trip is admitted
    return ds


def qs_of(kind, lst):
    path = "/v2/route" if kind == "route" else "/v2/accessibility"
    return path + "?" + "&".join("%s=%s" % (k, urllib.parse.quote(v, safe="")) for k, v in lst)


def parse_http(kind, st, hd, body):
    """canonical text of a raw answer: http <code> <class> ..."""
    if st is None:
        return "noreply"
    try:
        j = json.loads(body.decode("utf-8"))
    except Exception:
        return "http %s unparsable" % st
    hd = {k.lower(): v for k, v in hd.items()}
    if hd.get("content-length") is None or int(hd.get("content-length")) != len(body):
        return "http %s badlength" % st
    s = j.get("status")
    if s == "query_error":
        return "http %s queryerror %s" % (st, j.get("errorCode"))
    if s == "data_error":
        return "http %s dataerror %s" % (st, j.get("errorCode"))
    if s in ("success", "no_routing_found"):
        q = j.get("query", {})
        return "http %s answer %s %s" % (st, q.get("timeOfTrip"), q.get("timeType"))
    return "http %s other %s" % (st, s)


def echo_defect(kind, fields, body):
    """the points echoed in `query` of a 200 answer must be the points of the request, [longitude, latitude] in that order
    (only judged when the parameter occurs once and reads as two plain decimal numbers); -> text of the defect or None"""
    try:
        j = json.loads(body.decode("utf-8"))
    except Exception:
        return None
    if j.get("status") not in ("success", "no_routing_found") or not isinstance(j.get("query"), dict):
        return None
    for key in (("place",) if kind == "access" else ("origin", "destination")):
        vals = [v for (k, v) in fields if k == key]
        if len(vals) != 1 or not re.fullmatch(r"-?\d+(\.\d+)?,-?\d+(\.\d+)?", vals[0]):
            continue
        lon, lat = map(float, vals[0].split(","))
        got = j["query"].get(key)
        if not (isinstance(got, list) and len(got) == 2 and all(isinstance(x, (int, float)) for x in got)
                and abs(got[0] - lon) <= 1e-4 * max(1.0, abs(lon)) and abs(got[1] - lat) <= 1e-4 * max(1.0, abs(lat))):
            return "query.%s echoed as %r, the request says %s (longitude, latitude)" % (key, got, vals[0])
    return None


def main(pid, tier, seed, replay_path=None):
    t0 = time.time()
    po = cl.proof_obligations(pid)
    l2, e1 = build.build_l2()
    dr, e2 = build.build_driver()
    binary, e3 = l3.build_server()
    if e1 or e2 or e3:
        path = cl.write_nofail_replay(pid, "harness/model/server build", str(e1 or e2 or e3))
        print("VIOLATION property=%s replay=%s no-failing-input-found" % (pid, path))
        return 1
    rng = gen.Rng(seed * 9176 + 18)
    nq = 1500 if tier == "quick" else 20000
    queries = gen_queries(rng, nq)
    ds = small_dataset()
    d = os.path.join(build.WORK, "scratch", "c18-%d-%s" % (seed, tier))
    shutil.rmtree(d, ignore_errors=True)
    os.makedirs(d, exist_ok=True)
    # ---- L1: factories ------------------------------------------------------------------------------------
    case = os.path.join(d, "params.case")
    variants = []      # per query: the key/value lists to try (duplicates: both positions)
    with open(case, "w") as f:
        f.write(l3batch_norm(ds).text())
        for (kind, lst, dups) in queries:
            # SimpleWeb hands the query to the handler as an unordered multimap: the ORDER in which the factory meets the
            # parameters is unspecified, and the first defect it meets decides the error code.  Every parameter is therefore
            # also tried in front position; the HTTP answer must be the model's answer for one of these orders.
            vs = [lst] + [[lst[j]] + lst[:j] + lst[j + 1:] for j in range(1, len(lst))]
            for (k, v) in dups:
                vs = [x + [(k, v)] for x in vs] + [[(k, v)] + x for x in vs]
            variants.append(vs)
            for x in vs:
                f.write("params %s %d %s\n" % (kind, len(x), " ".join("%s %s" % (hexs(k), hexs(v)) for k, v in x)))
    recs = run.run_batch([case], l2, dr, d + ".out")
    l1_diffs = [r for r in recs if r["impl"].split(" | http")[0].strip() != r["model"].split(" | http")[0].strip()]
    # ---- L3: raw HTTP -------------------------------------------------------------------------------------
    cache = os.path.join(d, "cache")
    l3.write_cache(ds, cache)
    stub = l3.OsrmStub()
    node = ds.nodes[0]
    stub.set_tables([(node, 30, 40)], [(ds.nodes[-1], 30, 40)])
    fails, l3_evals, nontriv = [], 0, set()
    classes = {}
    srv = l3.Server(binary, cache, stub.port)
    try:
        ri = 0
        sample = range(len(queries)) if tier == "thorough" else [i for i in range(len(queries)) if i % 3 == 0]
        summary_evals = 0
        update_evals = 0
        # index of the first record of each query in recs
        starts, acc = [], 0
        for vs in variants:
            starts.append(acc)
            acc += len(vs)
        for i in sample:
            kind, lst, dups = queries[i]
            full = variants[i][0]
            st, hd, body = srv.get(qs_of(kind, full), timeout=20)
            got = parse_http(kind, st, hd, body)
            l3_evals += 1
            allowed = set()
            for vi in range(len(variants[i])):
                m = recs[starts[i] + vi]["model"]
                if " | http " in m:
                    allowed.add("http " + m.split(" | http ")[1].strip())
            classes[got.split()[2] if len(got.split()) > 2 else got] = classes.get(got.split()[2] if len(got.split()) > 2 else got, 0) + 1
            ok = got in allowed
            if not ok and got.startswith("http 200 answer") and any(a.startswith("http 200 answer") for a in allowed):
                # the echoed timeOfTrip/timeType must match one of the model's permutations
                ok = False
            if not ok:
                fails.append(("response %r is not the documented classification %s of this request" % (got, sorted(allowed)), qs_of(kind, full)))
            bad_echo = echo_defect(kind, full, body) if st == 200 else None
            if bad_echo:
                fails.append((bad_echo, qs_of(kind, full)))
            if "queryerror" in got:
                code = got.split()[3]
                nontriv.add(qs_of(kind, full))
                if code not in DOCUMENTED:
                    fails.append(("undocumented errorCode %s" % code, qs_of(kind, full)))
            if not srv.alive():
                fails.append(("server process died (exit %s)" % srv.exit_status(), qs_of(kind, full)))
                srv = l3.Server(binary, cache, stub.port)
            if kind == "route":
                # /v2/summary takes the same parameters through the same factory: same classification, except that a request
                # without routing is answered status success (0 routes)
                sqs = qs_of(kind, full).replace("/v2/route?", "/v2/summary?", 1)
                st2, hd2, body2 = srv.get(sqs, timeout=20)
                got2 = parse_http("summary", st2, hd2, body2)
                l3_evals += 1
                summary_evals += 1
                if got2 not in allowed:
                    fails.append(("/v2/summary response %r is not the documented classification %s of this request" % (got2, sorted(allowed)), sqs))
                bad_echo = echo_defect(kind, full, body2) if st2 == 200 else None
                if bad_echo:
                    fails.append(("/v2/summary: " + bad_echo, sqs))
                if not srv.alive():
                    fails.append(("server process died (exit %s)" % srv.exit_status(), sqs))
                    srv = l3.Server(binary, cache, stub.port)
        # time extremes on an otherwise valid query: must be answered and must not kill the process
        # (also on scenario 5, which names services but admits no trip at all: its connection set is EMPTY)
        for t in [0, 1, 3599, 3600, 86399, 86400, 115199, 115200, 115201, 118799, 118800, 200000, 2147483647, -36000, -3600, -7200, -30000]:
            for tt in (0, 1):
              for kind in ("route", "access", "summary"):
                scen_here = 5 if t < 0 else 1
                t = abs(t)
                lst = ([("place", "-73.0,45.0001")] if kind == "access" else [("origin", "-73.0,45.0001"), ("destination", "-73.0,45.0002")]) + \
                      [("scenario_id", SCEN(scen_here)), ("time_of_trip", str(t)), ("time_type", str(tt))]
                qs = qs_of("access" if kind == "access" else "route", lst)
                if kind == "summary":
                    qs = qs.replace("/v2/route?", "/v2/summary?", 1)
                st, hd, body = srv.get(qs, timeout=20)
                got = parse_http(kind, st, hd, body)
                l3_evals += 1
                if not got.startswith("http 200 answer %d %d" % (t, tt)):
                    fails.append(("%s, time_of_trip=%d: expected an answer with the query echoed, got %r" % (kind, t, got), qs))
                if not srv.alive():
                    fails.append(("%s, time_of_trip=%d kills the server (exit %s)" % (kind, t, srv.exit_status()), qs))
                    srv = l3.Server(binary, cache, stub.port)
        # the same extremes with EVERY stop far away and no walking limit (max_access/egress_travel_time=0): the shortest
        # access / egress walk is then 100000 s, so "request time minus the shortest egress walk" is far below 0:00 and
        # "request time plus the shortest access walk" far beyond 32:00 -- the hours the scans enter through lie outside the tables
        stub.set_tables([], [])
        for t in [0, 1, 3600, 7199, 86400, 115199, 115200, 200000]:
            for tt in (0, 1):
                for kind in ("route", "access"):
                    base = [("scenario_id", SCEN(1)), ("time_of_trip", str(t)), ("time_type", str(tt)), ("max_access_travel_time", "0"), ("max_egress_travel_time", "0")]
                    lst = ([("origin", "-73.0,45.0001"), ("destination", "-73.0,45.0002")] if kind == "route" else [("place", "-73.0,45.0001")]) + base
                    qs = qs_of(kind, lst)
                    st, hd, body = srv.get(qs, timeout=20)
                    got = parse_http(kind, st, hd, body)
                    l3_evals += 1
                    if not got.startswith("http 200 answer %d %d" % (t, tt)):
                        fails.append(("far stops, no walking limit, time_of_trip=%d time_type=%d: expected an answer with the query echoed, got %r" % (t, tt, got), qs))
                    if not srv.alive():
                        fails.append(("far stops, no walking limit, time_of_trip=%d time_type=%d kills the server (exit %s)" % (t, tt, srv.exit_status()), qs))
                        srv = l3.Server(binary, cache, stub.port)
        stub.set_tables([(node, 30, 40)], [(ds.nodes[-1], 30, 40)])
        # /updateCache: known, unknown, empty, mixed names
        known = ["all", "schedules", "scenarios", "nodes", "lines", "paths", "agencies", "services", "data_sources", "persons", "od_trips"]
        ucases = [["schedules"], ["foo"], [""], ["foo", "schedules"], ["schedules", "foo"], ["foo", "bar"], ["scenarios", "schedules"], ["all"], ["", "all"], ["nodes", ""]]
        for names in ucases:
            qs = "/updateCache?names=" + ",".join(names)
            st, hd, body = srv.get(qs, timeout=30)
            l3_evals += 1
            try:
                j = json.loads(body.decode()) if st is not None else None
            except Exception:
                j = None
            expect_success = any(n in known for n in names)
            if st is None or j is None:
                fails.append(("/updateCache?names=%s got no well-formed answer" % ",".join(names), qs))
            elif expect_success != (j.get("status") == "success"):
                fails.append(("/updateCache?names=%s answered status %r" % (",".join(names), j.get("status")), qs))
            nontriv.add(qs)
            if not srv.alive():
                fails.append(("/updateCache kills the server", qs))
                srv = l3.Server(binary, cache, stub.port)
        st, hd, body = srv.get("/updateCache", timeout=20)
        l3_evals += 1
        if st is None:
            fails.append(("/updateCache without names got no answer", "/updateCache"))
        # every documented cache name alone and next to an unknown one, every alias of the parameter, an extra unknown parameter:
        # answered with the success object NAMING what was sent.  A separate server: refreshing one upstream collection alone
        # leaves the others holding references into the replaced one (DESIGN 0.4), so no routing request follows here.
        srv.stop()
        srv = l3.Server(binary, cache, stub.port)
        ureqs = [("names", [n]) for n in known] + [("names", [n, "foo"]) for n in known[:6]] + [("names", ["foo", n]) for n in known[5:]] + \
                [(alias, ["schedules"]) for alias in ("caches", "cache_names", "name", "cache", "cache_name")] + [("names", ["agencies", "services"]), ("names", ["lines", "paths", "schedules"])]
        for (key, names) in ureqs:
            for extra in ("", "&foo=bar"):
                qs = "/updateCache?%s=%s%s" % (key, ",".join(names), extra)
                st, hd, body = srv.get(qs, timeout=60)
                l3_evals += 1
                update_evals += 1
                try:
                    j = json.loads(body.decode()) if st is not None else None
                except Exception:
                    j = None
                if st is None or j is None:
                    fails.append(("%s got no well-formed answer" % qs, qs))
                elif j.get("status") != "success":
                    fails.append(("%s answered status %r (a known cache name was given)" % (qs, j.get("status")), qs))
                else:
                    named = [x for x in str(j.get("cache_names", "")).split(",") if x]
                    sent_known = [n for n in names if n in known]
                    if [x for x in named if x in known] != sent_known or any(x not in names for x in named):
                        fails.append(("%s: the success object names %r, sent %r" % (qs, j.get("cache_names"), names), qs))
                nontriv.add(qs)
                if not srv.alive():
                    fails.append(("/updateCache kills the server", qs))
                    srv = l3.Server(binary, cache, stub.port)
        # names spread over SEVERAL fields (the parameter repeated, or two of its aliases): the names of all fields count -- a known
        # name in any of them is a known name (the order in which the handler meets the fields is unspecified, so only the SET
        # of names echoed is compared)
        multi = [[("names", "foo"), ("names", "nodes")], [("names", "nodes"), ("names", "foo")], [("names", "foo"), ("cache", "nodes")],
                 [("cache", "foo"), ("names", "nodes")], [("names", ""), ("names", "lines")], [("names", "lines"), ("cache_names", "paths")],
                 [("name", "agencies"), ("caches", "foo"), ("cache_name", "services")]]
        for fields in multi:
            qs = "/updateCache?" + "&".join("%s=%s" % f for f in fields)
            st, hd, body = srv.get(qs, timeout=60)
            l3_evals += 1
            update_evals += 1
            try:
                j = json.loads(body.decode()) if st is not None else None
            except Exception:
                j = None
            sent = [n for (_, v) in fields for n in v.split(",")]
            if st is None or j is None:
                fails.append(("%s got no well-formed answer" % qs, qs))
            elif j.get("status") != "success":
                fails.append(("%s answered status %r (a known cache name was given in one of the fields)" % (qs, j.get("status")), qs))
            else:
                named = [x for x in str(j.get("cache_names", "")).split(",") if x]
                if sorted(x for x in named if x in known) != sorted(n for n in sent if n in known) or any(x not in sent for x in named):
                    fails.append(("%s: the success object names %r, sent %r" % (qs, j.get("cache_names"), sent), qs))
            nontriv.add(qs)
            if not srv.alive():
                fails.append(("/updateCache kills the server", qs))
                srv = l3.Server(binary, cache, stub.port)
        # an unknown extra parameter must not redirect the reload (e.g. be taken for the custom cache path): after a full refresh
        # carrying one, a valid request is answered as before
        # (a server started for this probe: the requests above may have left this one without data if an extra parameter
        # redirects the reload -- then "before" and "after" would agree on a data error)
        srv.stop()
        srv = l3.Server(binary, cache, stub.port)
        probe = qs_of("route", [("origin", "-73.0,45.0001"), ("destination", "-73.0,45.0002"), ("scenario_id", SCEN(1)), ("time_of_trip", "36000")])
        st_a, hd_a, body_a = srv.get(probe, timeout=20)
        if not parse_http("route", st_a, hd_a, body_a).startswith("http 200 answer"):
            fails.append(("probe request on a freshly started server is not answered: %r" % parse_http("route", st_a, hd_a, body_a), probe))
        st_u, hd_u, body_u = srv.get("/updateCache?names=all&foo=bar", timeout=60)
        st_b, hd_b, body_b = srv.get(probe, timeout=20)
        l3_evals += 3
        if st_a is None or st_b is None or body_a != body_b:
            fails.append(("after /updateCache?names=all&foo=bar the same request is answered differently (%s... -> %s...)" %
                          ((body_a or b"")[:80], (body_b or b"")[:80]), "/updateCache?names=all&foo=bar"))
        try:
            if json.loads(body_u.decode()).get("custom_cache_path") != "":
                fails.append(("/updateCache?names=all&foo=bar: the success object reports custom_cache_path=%r" % json.loads(body_u.decode()).get("custom_cache_path"), "/updateCache?names=all&foo=bar"))
        except Exception:
            fails.append(("/updateCache?names=all&foo=bar: no well-formed answer", "/updateCache?names=all&foo=bar"))
        # the custom cache path (and its aliases): the reload reads <cache>/<path>/ -- answers must then be those of a server
        # started on that directory, and the success object must name the path
        ds_alt = gen.gen_dataset(gen.Rng(12), dict(gen.PROFILES["opt"], base=10))
        ds_alt.scens = [sc for sc in ds_alt.scens if sc[0] != 4] + [(4, [[], [], [], [], [], [], [], [], []])]
        alt_dir = os.path.join(cache, "alt")
        l3.write_cache(ds_alt, alt_dir)
        ref_srv = l3.Server(binary, alt_dir, stub.port)
        want = [ref_srv.get(probe.replace("36000", str(tq)), timeout=20)[::2] for tq in (30000, 36000, 40000)]
        ref_srv.stop()
        for key in ("custom_cache_path", "path", "custom_path"):
            uq = "/updateCache?names=all&%s=alt" % key
            st_u, hd_u, body_u = srv.get(uq, timeout=60)
            got = [srv.get(probe.replace("36000", str(tq)), timeout=20)[::2] for tq in (30000, 36000, 40000)]
            l3_evals += 4
            update_evals += 1
            try:
                named = json.loads(body_u.decode()).get("custom_cache_path")
            except Exception:
                named = None
            if named != "alt":
                fails.append(("%s: the success object reports custom_cache_path=%r" % (uq, named), uq))
            if got != want:
                fails.append(("after %s the server does not answer like a server started on that directory" % uq, uq))
            srv.get("/updateCache?names=all", timeout=60)       # back to the main directory
            if not srv.alive():
                fails.append(("%s kills the server" % uq, uq))
                srv = l3.Server(binary, cache, stub.port)
    finally:
        srv.stop()
    # not-ready data: every endpoint answers data_error with the code naming the missing collection
    for omit, code in (("scenarios.capnpbin", "MISSING_DATA_SCENARIOS"), ("agencies.capnpbin", "MISSING_DATA_AGENCIES")):
        l3.write_cache(ds, cache, omit=(omit,))
        srv = l3.Server(binary, cache, stub.port)
        try:
            for (kind, lst, dups) in queries[:40]:
                st, hd, body = srv.get(qs_of(kind, lst), timeout=20)
                got = parse_http(kind, st, hd, body)
                l3_evals += 1
                if got != "http 200 dataerror " + code:
                    fails.append(("not-ready data (%s removed): got %r" % (omit, got), qs_of(kind, lst)))
        finally:
            srv.stop()
    stub.close()
    shutil.rmtree(cache, ignore_errors=True)
    rc, viol = 0, []
    os.makedirs(os.path.join(cl.REPLAYS, pid), exist_ok=True)
    if fails:
        why, qs = fails[0]
        path = os.path.join(cl.REPLAYS, pid, "%s-%d.txt" % (pid, abs(hash(qs)) % 10 ** 9))
        with open(path, "w") as f:
            f.write("# %s\n# dataset: tools/check_c18.py small_dataset(); replay with: curl 'http://localhost:<port>%s'\n%s\n" % (why, qs, qs))
        print("VIOLATION property=%s replay=%s\n  %s\n  request: %s" % (pid, path, why, qs[:300]))
        seen = set()
        for w, q in fails:
            key = w[:60]
            if key not in seen and len(seen) < 8:
                seen.add(key)
                print("  also: %s | %s" % (w[:160], q[:120]))
        viol.append(path); rc = 1
    elif l1_diffs:
        r = l1_diffs[0]
        path = cl.write_replay(pid, r, "parameter factories and model disagree (L1); no misclassified HTTP answer found in %d requests" % l3_evals)
        print("VIOLATION property=%s replay=%s no-failing-input-found\n  impl : %s\n  model: %s" % (pid, path, r["impl"], r["model"]))
        viol.append(path); rc = 1
    elif not po["ok"]:
        path = cl.write_nofail_replay(pid, "proof obligations of Properties_%s.v (%d of %d)" % (pid, po["discharged"], po["obligations"]), po["log"])
        print("VIOLATION property=%s replay=%s no-failing-input-found" % (pid, path))
        viol.append(path); rc = 1
    cov = dict(obligations=max(1, po["obligations"]), discharged=po["discharged"], checker_cmd=po["checker_cmd"], trusted_base=cl.TRUSTED_BASE,
               theorems=po["theorems"], print_assumptions=po["assumptions"], open_statements=cl_open(pid),
               evaluations=len(recs) + l3_evals, distinct_nontrivial=len(nontriv),
               rule="valid base query with 0-3 mutations (key absent / value from the class list / duplicated key; optional keys often omitted; keys shuffled): (L1) RouteParameters/AccessibilityParameters factories called directly vs Params.v for every field or exception; (L3) raw HTTP vs the model's classification (for duplicated keys any order of the duplicates is accepted), time extremes, /updateCache names, not-ready data; liveness after every request; non-trivial = query_error answers and /updateCache requests",
               samples=[dict(request=qs_of(k, l)[:200]) for (k, l, dd) in queries[:3]], l1_factory_cases=len(recs), l1_disagreements=len(l1_diffs),
               l3_requests=l3_evals, l3_answer_classes=classes, violations=len(fails), exhaustive=False)
    cl.write_evidence(pid, tier, seed, "proof", cov, ["request-line parsing, percent-decoding, socket writes and Content-Length framing are SimpleWeb's (exercised at L3, not modelled)",
                                                      "boost uuid parser modelled on the generated texts only (36-character and 32-hex forms)"],
                      time.time() - t0, len(viol))
    print("%s %s: obligations %d/%d, %d factory cases (%d disagreements), %d HTTP requests, %d violations, %.1fs" %
          (pid, tier, po["discharged"], po["obligations"], len(recs), len(l1_diffs), l3_evals, len(fails), time.time() - t0))
    return rc


def l3batch_norm(ds):
    import l3batch
    return l3batch.normalize_dataset(ds)
