(* driver.ml — reads a case file (one dataset + operations), runs the extracted Coq model, prints one
   canonical result line per operation.  The C++ harness prints the same lines from the implementation. *)
open Model

let rec nat_of_int n = if n <= 0 then O else S (nat_of_int (n - 1))
let rec int_of_nat = function O -> 0 | S n -> 1 + int_of_nat n

let rec pos_of_int n = if n = 1 then XH else if n land 1 = 0 then XO (pos_of_int (n lsr 1)) else XI (pos_of_int (n lsr 1))
let z_of_int n = if n = 0 then Z0 else if n > 0 then Zpos (pos_of_int n) else Zneg (pos_of_int (-n))
let rec int_of_pos = function XH -> 1 | XO p -> 2 * int_of_pos p | XI p -> 2 * int_of_pos p + 1
let int_of_z = function Z0 -> 0 | Zpos p -> int_of_pos p | Zneg p -> - (int_of_pos p)

(* token stream *)
let tokens : string list ref = ref []
let load file =
  let ic = open_in file in
  let buf = Buffer.create 65536 in
  (try while true do
      let l = input_line ic in
      let l = match String.index_opt l '#' with Some i -> String.sub l 0 i | None -> l in
      Buffer.add_string buf l; Buffer.add_char buf ' ' done with End_of_file -> ());
  close_in ic;
  tokens := List.filter (fun s -> s <> "") (String.split_on_char ' ' (Buffer.contents buf))
let next () = match !tokens with [] -> failwith "eof" | t :: r -> tokens := r; t
let peek () = match !tokens with [] -> None | t :: _ -> Some t
let int () = int_of_string (next ())
let nat () = nat_of_int (int ())
let zz () = z_of_int (int ())
let rec times n f = if n <= 0 then [] else let x = f () in x :: times (n - 1) f
let counted f = let n = int () in times n f
let row () = let n = nat () in let t = zz () in let d = zz () in { fp_node = n; fp_time = t; fp_dist = d }

type ds = { mutable nodes : nat list; mutable fp : (nat * fprow list) list; mutable rfp : (nat * fprow list) list;
            mutable lines : line list; mutable paths : path list; mutable trips : trip list;
            mutable scens : scenario list }

let read_dataset () =
  let d = { nodes = []; fp = []; rfp = []; lines = []; paths = []; trips = []; scens = [] } in
  let fin = ref false in
  while not !fin do
    match next () with
    | "nodes" -> d.nodes <- counted nat
    | "fp" -> let n = nat () in let rows = counted row in d.fp <- d.fp @ [ (n, rows) ]
    | "rfp" -> let n = nat () in let rows = counted row in d.rfp <- d.rfp @ [ (n, rows) ]
    | "line" -> let id = nat () in let ag = nat () in let m = nat () in
        d.lines <- d.lines @ [ { l_id = id; l_agency = ag; l_mode = m } ]
    | "path" -> let id = nat () in let l = nat () in let ns = counted nat in let ds = counted zz in
        d.paths <- d.paths @ [ { p_id = id; p_line = l; p_nodes = ns; p_dists = ds } ]
    | "trip" -> let id = nat () in let p = nat () in let s = nat () in
        let sts = counted (fun () -> let a = zz () in let dd = zz () in let cb = int () in let cu = int () in
                             { st_arr = a; st_dep = dd; st_cb = (cb = 1); st_cu = (cu = 1) }) in
        d.trips <- d.trips @ [ { t_id = id; t_path = p; t_service = s; t_times = sts } ]
    | "scen" -> let id = nat () in
        let sv = counted nat in let ol = counted nat in let om = counted nat in let oa = counted nat in
        let on = counted nat in let el = counted nat in let em = counted nat in let ea = counted nat in
        let en = counted nat in
        d.scens <- d.scens @ [ { s_id = id; s_services = sv; s_onlyLines = ol; s_onlyModes = om; s_onlyAgencies = oa;
                                 s_onlyNodes = on; s_exceptLines = el; s_exceptModes = em; s_exceptAgencies = ea;
                                 s_exceptNodes = en } ]
    | "end" -> fin := true
    | t -> failwith ("dataset: unexpected token " ^ t)
  done;
  { d_nodes = d.nodes; d_fp = d.fp; d_rfp = d.rfp; d_lines = d.lines; d_paths = d.paths; d_trips = d.trips;
    d_scenarios = d.scens }

let read_params () =
  let sc = nat () in let time = zz () in let minw = zz () in let maxtt = zz () in let maxacc = zz () in
  let maxegr = zz () in let maxtr = zz () in let maxfw = zz () in let fwd = int () in
  { q_scenario = sc; q_time = time; q_minw = minw; q_maxtt = maxtt; q_maxacc = maxacc; q_maxegr = maxegr;
    q_maxtr = maxtr; q_maxfw = maxfw; q_fwd = (fwd = 1); q_except_lines = [] }

let b = Buffer.create 4096
let pi n = Buffer.add_char b ' '; Buffer.add_string b (string_of_int n)
let pz z = pi (int_of_z z)
let pn n = pi (int_of_nat n)
let ps s = Buffer.add_string b s

let print_route (r : route) =
  ps "route ok";
  List.iter pz [ r.rt_dep; r.rt_arr; r.rt_ttt; r.rt_tdist; r.rt_tivt; r.rt_tivd; r.rt_tnt; r.rt_tntd; r.rt_nboard;
                 r.rt_ntransf; r.rt_trwalk; r.rt_trdist; r.rt_acc; r.rt_accd; r.rt_egr; r.rt_egrd; r.rt_trwait;
                 r.rt_fwait; r.rt_twait ];
  List.iter (fun s ->
      match s with
      | SWalk (k, t, d, dep, arr, rdy) -> ps " | W"; pn k; List.iter pz [ t; d; dep; arr; rdy ]
      | SBoard (t, l, s, n, dep, w) -> ps " | B"; List.iter pn [ t; l; s; n ]; List.iter pz [ dep; w ]
      | SUnboard (t, l, s, n, arr, ivt, ivd) -> ps " | U"; List.iter pn [ t; l; s; n ]; List.iter pz [ arr; ivt; ivd ])
    r.rt_steps

let print_fail kind = function
  | NoRouting r -> ps kind; ps " noroute"; pn r
  | ParamErr c -> ps kind; ps " paramerr"; pn c
  | DataErr c -> ps kind; ps " dataerr"; pn c
  | Exn t -> ps kind; ps " exn"; pn t
  | NoReply -> ps kind; ps " noreply"
  | Crash -> ps kind; ps " crash"
  | UB t -> ps kind; ps " ub"; pn t
  | Hang -> ps kind; ps " hang"
  | Ok _ -> ()

let flush_line () = print_string (Buffer.contents b); print_newline (); Buffer.clear b

let () =
  load Sys.argv.(1);
  (match next () with "dataset" -> () | t -> failwith ("expected dataset, got " ^ t));
  let d = read_dataset () in
  let continue = ref true in
  while !continue do
    match peek () with
    | None -> continue := false
    | Some _ ->
      (match next () with
       | "route" ->
         let p = read_params () in
         let alt = int () in
         let acc = counted row in
         let egr = counted row in
         (match find_scenario d p.q_scenario with
          | None -> ps "route noscenario"
          | Some s ->
            let cs = conn_set d s in
            if alt = 1 then
              (match alternatives d cs p acc egr with
               | Ok (rs, total) ->
                 ps "alt ok"; pz total; pi (List.length rs);
                 List.iter (fun r -> ps " || "; print_route r) rs
               | o -> print_fail "alt" o)
            else
              (match calc_single d cs p acc egr true with
               | Ok (r, used) -> print_route r; ps " | opt"; List.iter pn used
               | o -> print_fail "route" o));
         flush_line ()
       | "access" ->
         let p = read_params () in
         let rows = counted row in
         (match find_scenario d p.q_scenario with
          | None -> ps "access noscenario"
          | Some s ->
            let cs = conn_set d s in
            (match calc_allnodes d cs p rows with
             | Ok (l, total) ->
               ps "access ok"; pi (List.length l); pz total;
               List.iter (fun a -> ps " |"; pn a.an_node; pz a.an_time; pz a.an_ttt; pz a.an_ntr) l
             | o -> print_fail "access" o));
         flush_line ()
       | "index" ->
         (* hour-index probe: scenario, then the two tables and both lookups for hours -2..40 *)
         let sc = nat () in
         (match find_scenario d sc with
          | None -> ps "index noscenario"
          | Some s ->
            let cs = conn_set d s in
            ps "index f"; List.iter pn cs.cs_fidx; ps " r"; List.iter pn cs.cs_ridx;
            ps " lf";
            for h = -2 to 40 do
              match fwd_entry cs (z_of_int h) with None -> ps " oob" | Some i -> pn i
            done;
            ps " lr";
            for h = -2 to 40 do
              match rev_entry cs (z_of_int h) with None -> ps " oob" | Some i -> pn i
            done);
         flush_line ()
       | t -> failwith ("unexpected op " ^ t))
  done
