(* driver.ml — reads a case file (one dataset + operations), runs the extracted Coq model, prints one
   canonical result line per operation.  The C++ harness prints the same lines from the implementation. *)
open Model

let rec nat_of_int n = if n <= 0 then O else S (nat_of_int (n - 1))
let rec int_of_nat = function O -> 0 | S n -> 1 + int_of_nat n

let rec pos_of_int n = if n = 1 then XH else if n land 1 = 0 then XO (pos_of_int (n lsr 1)) else XI (pos_of_int (n lsr 1))
let z_of_int n = if n = 0 then Z0 else if n > 0 then Zpos (pos_of_int n) else Zneg (pos_of_int (-n))
let rec int_of_pos = function XH -> 1 | XO p -> 2 * int_of_pos p | XI p -> 2 * int_of_pos p + 1
let int_of_z = function Z0 -> 0 | Zpos p -> int_of_pos p | Zneg p -> - (int_of_pos p)

(* token stream *)
let tokens : string list ref = ref []
let load file =
  let ic = open_in file in
  let buf = Buffer.create 65536 in
  (try while true do
      let l = input_line ic in
      let l = match String.index_opt l '#' with Some i -> String.sub l 0 i | None -> l in
      Buffer.add_string buf l; Buffer.add_char buf ' ' done with End_of_file -> ());
  close_in ic;
  tokens := List.filter (fun s -> s <> "") (String.split_on_char ' ' (Buffer.contents buf))
let next () = match !tokens with [] -> failwith "eof" | t :: r -> tokens := r; t
let peek () = match !tokens with [] -> None | t :: _ -> Some t
let int () = int_of_string (next ())
let nat () = nat_of_int (int ())
let zz () = z_of_int (int ())
let rec times n f = if n <= 0 then [] else let x = f () in x :: times (n - 1) f
let counted f = let n = int () in times n f
let row () = let n = nat () in let t = zz () in let d = zz () in { fp_node = n; fp_time = t; fp_dist = d }

type ds = { mutable nodes : nat list; mutable fp : (nat * fprow list) list; mutable rfp : (nat * fprow list) list;
            mutable lines : line list; mutable paths : path list; mutable trips : trip list;
            mutable scens : scenario list }

let read_dataset () =
  let d = { nodes = []; fp = []; rfp = []; lines = []; paths = []; trips = []; scens = [] } in
  let fin = ref false in
  while not !fin do
    match next () with
    | "nodes" -> d.nodes <- counted nat
    | "fp" -> let n = nat () in let rows = counted row in d.fp <- d.fp @ [ (n, rows) ]
    | "rfp" -> let n = nat () in let rows = counted row in d.rfp <- d.rfp @ [ (n, rows) ]
    | "line" -> let id = nat () in let ag = nat () in let m = nat () in
        d.lines <- d.lines @ [ { l_id = id; l_agency = ag; l_mode = m } ]
    | "path" -> let id = nat () in let l = nat () in let ns = counted nat in let ds = counted zz in
        d.paths <- d.paths @ [ { p_id = id; p_line = l; p_nodes = ns; p_dists = ds } ]
    | "trip" -> let id = nat () in let p = nat () in let s = nat () in
        let sts = counted (fun () -> let a = zz () in let dd = zz () in let cb = int () in let cu = int () in
                             { st_arr = a; st_dep = dd; st_cb = (cb = 1); st_cu = (cu = 1) }) in
        d.trips <- d.trips @ [ { t_id = id; t_path = p; t_service = s; t_times = sts } ]
    | "scen" -> let id = nat () in
        let sv = counted nat in let ol = counted nat in let om = counted nat in let oa = counted nat in
        let on = counted nat in let el = counted nat in let em = counted nat in let ea = counted nat in
        let en = counted nat in
        d.scens <- d.scens @ [ { s_id = id; s_services = sv; s_onlyLines = ol; s_onlyModes = om; s_onlyAgencies = oa;
                                 s_onlyNodes = on; s_exceptLines = el; s_exceptModes = em; s_exceptAgencies = ea;
                                 s_exceptNodes = en } ]
    | "end" -> fin := true
    | t -> failwith ("dataset: unexpected token " ^ t)
  done;
  { d_nodes = d.nodes; d_fp = d.fp; d_rfp = d.rfp; d_lines = d.lines; d_paths = d.paths; d_trips = d.trips;
    d_scenarios = d.scens }

let read_params () =
  let sc = nat () in let time = zz () in let minw = zz () in let maxtt = zz () in let maxacc = zz () in
  let maxegr = zz () in let maxtr = zz () in let maxfw = zz () in let fwd = int () in
  { q_scenario = sc; q_time = time; q_minw = minw; q_maxtt = maxtt; q_maxacc = maxacc; q_maxegr = maxegr;
    q_maxtr = maxtr; q_maxfw = maxfw; q_fwd = (fwd = 1); q_except_lines = [] }

let b = Buffer.create 4096
let pi n = Buffer.add_char b ' '; Buffer.add_string b (string_of_int n)
let pz z = pi (int_of_z z)
let pn n = pi (int_of_nat n)
let ps s = Buffer.add_string b s

let print_route (r : route) =
  ps "route ok";
  List.iter pz [ r.rt_dep; r.rt_arr; r.rt_ttt; r.rt_tdist; r.rt_tivt; r.rt_tivd; r.rt_tnt; r.rt_tntd; r.rt_nboard;
                 r.rt_ntransf; r.rt_trwalk; r.rt_trdist; r.rt_acc; r.rt_accd; r.rt_egr; r.rt_egrd; r.rt_trwait;
                 r.rt_fwait; r.rt_twait ];
  List.iter (fun s ->
      match s with
      | SWalk (k, t, d, dep, arr, rdy) -> ps " | W"; pn k; List.iter pz [ t; d; dep; arr; rdy ]
      | SBoard (t, l, s, n, dep, w) -> ps " | B"; List.iter pn [ t; l; s; n ]; List.iter pz [ dep; w ]
      | SUnboard (t, l, s, n, arr, ivt, ivd) -> ps " | U"; List.iter pn [ t; l; s; n ]; List.iter pz [ arr; ivt; ivd ])
    r.rt_steps

let print_fail kind = function
  | NoRouting r -> ps kind; ps " noroute"; pn r
  | ParamErr c -> ps kind; ps " paramerr"; pn c
  | DataErr c -> ps kind; ps " dataerr"; pn c
  | Exn t -> ps kind; ps " exn"; pn t
  | NoReply -> ps kind; ps " noreply"
  | Crash -> ps kind; ps " crash"
  | UB t -> ps kind; ps " ub"; pn t
  | Hang -> ps kind; ps " hang"
  | Ok _ -> ()

let flush_line () = print_string (Buffer.contents b); print_newline (); Buffer.clear b


(* ---- operations ------------------------------------------------------------------------------ *)
type op =
  | OpRoute of params * bool * fprow list * fprow list
  | OpAccess of params * fprow list
  | OpIndex of nat
  | OpParams of string * (string * string) list
  | OpRefresh of int * data
  | OpParallel of int * int list
  | OpOptimize of z * (nat * z * z) * (nat * z * z) * (nat * nat * nat * z * z) list

let read_ops () =
  let ops = ref [] in
  let continue = ref true in
  while !continue do
    match peek () with
    | None -> continue := false
    | Some _ ->
      (match next () with
       | "route" ->
         let p = read_params () in
         let alt = int () in
         let acc = counted row in
         let egr = counted row in
         ops := OpRoute (p, alt = 1, acc, egr) :: !ops
       | "access" ->
         let p = read_params () in
         let rows = counted row in
         ops := OpAccess (p, rows) :: !ops
       | "index" -> let sc = nat () in ops := OpIndex sc :: !ops
       | "params" ->
         let kind = next () in
         let kv = counted (fun () -> let a = next () in let b = next () in (a, b)) in
         ops := OpParams (kind, kv) :: !ops
       | "refresh" ->
         let k = int () in
         (match next () with "dataset" -> () | t -> failwith ("refresh: expected dataset, got " ^ t));
         let d' = read_dataset () in
         ops := OpRefresh (k, d') :: !ops
       | "parallel" -> let n = int () in let sl = counted int in ops := OpParallel (n, sl) :: !ops
       | "optimize" ->
         let minw = zz () in
         let an = nat () in let aw = zz () in let ad = zz () in
         let en = nat () in let ew = zz () in let ed = zz () in
         let legs = counted (fun () -> let t = nat () in let es = nat () in let xs = nat () in let w = zz () in let dd = zz () in (t, es, xs, w, dd)) in
         ops := OpOptimize (minw, (an, aw, ad), (en, ew, ed), legs) :: !ops
       | t -> failwith ("unexpected op " ^ t))
  done;
  List.rev !ops

let walk_js w dd = { js_enter = None; js_exit = None; js_trip = None; js_walk = w; js_same = false; js_dist = dd }
let journey_of d aw ad ew ed legs =
  let ls = List.map (fun (t, es, xs, w, dd) ->
      match find_conn d t es, find_conn d t xs with
      | Some en, Some ex -> Some { js_enter = Some en; js_exit = Some ex; js_trip = Some t; js_walk = w; js_same = false; js_dist = dd }
      | _, _ -> None) legs in
  if List.exists (fun x -> x = None) ls then None
  else Some (walk_js aw ad :: List.filter_map (fun x -> x) ls @ [ walk_js ew ed ])

(* ---- parameter factories (Params.v) ------------------------------------------------------------- *)
let unhex h = if h = "-" then "" else String.init (String.length h / 2) (fun i -> Char.chr (int_of_string ("0x" ^ String.sub h (2 * i) 2)))
let codes s = List.init (String.length s) (fun i -> nat_of_int (Char.code s.[i]))
let key_of = function
  | "origin" -> KOrigin | "destination" -> KDestination | "place" -> KPlace | "alternatives" -> KAlternatives
  | "time_of_trip" -> KTime | "time_type" -> KTimeType | "scenario_id" -> KScenario | "min_waiting_time" -> KMinWait
  | "max_travel_time" -> KMaxTT | "max_access_travel_time" -> KMaxAcc | "max_egress_travel_time" -> KMaxEgr
  | "max_transfer_travel_time" -> KMaxTr | "max_first_waiting_time" -> KMaxFW | _ -> KOther
(* boost::uuids::string_generator on the texts the generators produce: 36 characters with dashes or 32 hex digits *)
let is_hex c = (c >= '0' && c <= '9') || (c >= 'a' && c <= 'f') || (c >= 'A' && c <= 'F')
let uuid_ok s =
  let n = String.length s in
  if n = 36 then (let ok = ref true in String.iteri (fun i c -> if i = 8 || i = 13 || i = 18 || i = 23 then (if c <> '-' then ok := false) else if not (is_hex c) then ok := false) s; !ok)
  else if n = 32 then (let ok = ref true in String.iter (fun c -> if not (is_hex c) then ok := false) s; !ok)
  else false
let resolve_scenario d (v : nat list) : nat option option =
  let s = String.init (List.length v) (fun i -> Char.chr (int_of_nat (List.nth v i))) in
  if not (uuid_ok s) then None
  else if String.length s = 36 && String.sub s 0 24 = "00000005-0000-4000-8000-" then
    (match int_of_string_opt (String.sub s 24 12) with
     | Some id -> (match find_scenario d (nat_of_int id) with Some _ -> Some (Some (nat_of_int id)) | None -> Some None)
     | None -> Some None)
  else Some None
let services_of d sid = match find_scenario d sid with Some s -> nat_of_int (List.length s.s_services) | None -> O
let print_common (c : common) alt =
  ps "params ok"; List.iter pz [ c.cm_time; c.cm_minw; c.cm_maxtt; c.cm_maxacc; c.cm_maxegr; c.cm_maxtr; c.cm_maxfw ];
  pi (if c.cm_fwd then 1 else 0); pi (if alt then 1 else 0);
  (match c.cm_scen with Some s -> pn s | None -> ps " none")
let errname = function
  | C_EMPTY_SCENARIO -> "EMPTY_SCENARIO" | C_MISSING_PARAM_SCENARIO -> "MISSING_PARAM_SCENARIO" | C_MISSING_PARAM_ORIGIN -> "MISSING_PARAM_ORIGIN"
  | C_MISSING_PARAM_DESTINATION -> "MISSING_PARAM_DESTINATION" | C_MISSING_PARAM_TIME_OF_TRIP -> "MISSING_PARAM_TIME_OF_TRIP"
  | C_INVALID_ORIGIN -> "INVALID_ORIGIN" | C_INVALID_DESTINATION -> "INVALID_DESTINATION" | C_INVALID_NUMERICAL_DATA -> "INVALID_NUMERICAL_DATA"
  | C_MISSING_PARAM_PLACE -> "MISSING_PARAM_PLACE" | C_INVALID_PLACE -> "INVALID_PLACE" | C_PARAM_ERROR_UNKNOWN -> "PARAM_ERROR_UNKNOWN"
let run_params d kind kv =
  let q = List.map (fun (a, b) -> (key_of (unhex a), codes (unhex b))) kv in
  let http = function
    | Http (code, BDataError st) -> Printf.sprintf " | http %d dataerror %d" (int_of_nat code) (int_of_nat st)
    | Http (code, BQueryError c) -> Printf.sprintf " | http %d queryerror %s" (int_of_nat code) (errname c)
    | Http (code, BAnswer (_, c, _)) -> Printf.sprintf " | http %d answer %d %d" (int_of_nat code) (int_of_z c.cm_time) (if c.cm_fwd then 0 else 1) in
  let fin h = ps h in
  if kind = "update" then begin
    (* kv: (name, known?) pairs: value "1" = known cache name *)
    let names = List.map (fun (_, b) -> if unhex b = "1" then Some O else None) kv in
    (match handle_update names with
     | UError -> ps "update error"
     | USuccess l -> ps "update success"; List.iter pn l)
  end else
  let _ = fin in
  if kind = "route" then begin
    (match create_route (resolve_scenario d) (services_of d) q with
     | POk (c, alt) -> print_common c alt
     | PErr e -> ps "params err"; pn e
     | PExn -> ps "params exn");
    ps (http (handle_route (resolve_scenario d) (services_of d) (fun _ _ -> false) O q))
  end else begin
    (match create_access (resolve_scenario d) (services_of d) q with
     | POk c -> print_common c false
     | PErr e -> ps "params err"; pn e
     | PExn -> ps "params exn");
    ps (http (handle_access (resolve_scenario d) (services_of d) (fun _ _ -> false) O q))
  end

let run_model d0 ops =
  let dref = ref d0 in
  List.iter (fun op ->
      let d = !dref in
      (match op with
       | OpRefresh (_, d') ->
         (* spec_ops (Proofs/ServerInv.v, C15_general): later requests are answered on the new data *)
         dref := d';
         let status = if d'.d_nodes = [] then 8 else if d'.d_lines = [] then 3 else if d'.d_paths = [] then 4 else if d'.d_scenarios = [] then 6 else if d'.d_trips = [] then 7 else 0 in
         ps "refresh ok"; pi status
       | OpParallel (_, _) -> ps "parallel"
       | OpParams (kind, kv) -> run_params d kind kv
       | OpRoute (p, alt, acc, egr) ->
         (match find_scenario d p.q_scenario with
          | None -> ps "route noscenario"
          | Some s ->
            let cs = conn_set d s in
            if alt then
              (match alternatives d cs p acc egr with
               | Ok (rs, total) ->
                 ps "alt ok"; pz total; pi (List.length rs);
                 List.iter (fun r -> ps " || "; print_route r) rs
               | o -> print_fail "alt" o)
            else
              (match calc_single d cs p acc egr true with
               | Ok (r, used) -> print_route r; ps " | opt"; List.iter pn used
               | o -> print_fail "route" o))
       | OpAccess (p, rows) ->
         (match find_scenario d p.q_scenario with
          | None -> ps "access noscenario"
          | Some s ->
            let cs = conn_set d s in
            (match calc_allnodes d cs p rows with
             | Ok (l, total) ->
               ps "access ok"; pi (List.length l); pz total;
               List.iter (fun a -> ps " |"; pn a.an_node; pz a.an_time; pz a.an_ttt; pz a.an_ntr) l
             | o -> print_fail "access" o))
       | OpOptimize (_, (_, aw, ad), (_, ew, ed), legs) ->
         (match journey_of d aw ad ew ed legs with
          | None -> ps "optimize badinput"
          | Some js ->
            (match optimize (oPT_FUEL d) d js [] [] with
             | OptDone (js1, used) ->
               ps "optimize ok"; List.iter pn used;
               List.iter (fun j ->
                   match j.js_enter, j.js_exit, j.js_trip with
                   | Some en, Some ex, Some t -> ps " |"; pn t; pn en.c_seq; pn ex.c_seq; pz j.js_walk; pz j.js_dist
                   | _ -> ps " | W"; pz j.js_walk; pz j.js_dist) js1
             | OptUB -> ps "optimize ub 1"
             | OptHang -> ps "optimize hang"))
       | OpIndex sc ->
         (match find_scenario d sc with
          | None -> ps "index noscenario"
          | Some s ->
            let cs = conn_set d s in
            ps "index f"; List.iter pn cs.cs_fidx; ps " r"; List.iter pn cs.cs_ridx;
            ps " lf";
            for h = -2 to 40 do
              match fwd_entry cs (z_of_int h) with None -> ps " oob" | Some i -> pn i
            done;
            ps " lr";
            for h = -2 to 40 do
              match rev_entry cs (z_of_int h) with None -> ps " oob" | Some i -> pn i
            done));
      flush_line ()) ops

(* ---- oracle mode: proved/declarative decision procedures run on the implementation's output ---- *)
let split_on sep l =
  let rec go cur acc = function
    | [] -> List.rev (List.rev cur :: acc)
    | x :: r -> if x = sep then go [] (List.rev cur :: acc) r else go (x :: cur) acc r in
  go [] [] l

let ios = int_of_string
let zs s = z_of_int (ios s)
let ns s = nat_of_int (ios s)

let parse_route_tokens (toks : string list) : route option =
  (* toks: "route" "ok" 19 ints, then groups separated by "|" *)
  match split_on "|" toks with
  | hd :: groups ->
    (match hd with
     | "route" :: "ok" :: f when List.length f = 19 ->
       let f = Array.of_list (List.map zs f) in
       let steps = List.filter_map (fun g ->
           match g with
           | [ "W"; k; t; d; dep; arr; rdy ] -> Some (SWalk (ns k, zs t, zs d, zs dep, zs arr, zs rdy))
           | [ "B"; t; l; s; n; dep; w ] -> Some (SBoard (ns t, ns l, ns s, ns n, zs dep, zs w))
           | [ "U"; t; l; s; n; arr; ivt; ivd ] -> Some (SUnboard (ns t, ns l, ns s, ns n, zs arr, zs ivt, zs ivd))
           | _ -> None) groups in
       Some { rt_dep = f.(0); rt_arr = f.(1); rt_ttt = f.(2); rt_tdist = f.(3); rt_tivt = f.(4); rt_tivd = f.(5);
              rt_tnt = f.(6); rt_tntd = f.(7); rt_nboard = f.(8); rt_ntransf = f.(9); rt_trwalk = f.(10);
              rt_trdist = f.(11); rt_acc = f.(12); rt_accd = f.(13); rt_egr = f.(14); rt_egrd = f.(15);
              rt_trwait = f.(16); rt_fwait = f.(17); rt_twait = f.(18); rt_steps = steps }
     | _ -> None)
  | [] -> None

let max_int_c = 2147483647
let words s = List.filter (fun x -> x <> "") (String.split_on_char ' ' s)
let v01 bo = if bo then "1" else "0"
let opt_s = function None -> "none" | Some z -> string_of_int (int_of_z z)

let run_oracle d0 ops implfile =
  let dref = ref d0 in
  let ic = open_in implfile in
  let d = d0 in
  let wf = wf_data_b d in
  let pos = pos_hops_b d in
  let uni = uniform_wait_b d in
  Printf.printf "dataset wf=%s pos=%s uni=%s\n" (v01 wf) (v01 pos) (v01 uni);
  List.iter (fun op ->
      let line = try input_line ic with End_of_file -> "missing" in
      let toks = words line in
      let d = !dref in
      let wf = wf_data_b d in let pos = pos_hops_b d in let uni = uniform_wait_b d in
      (match op with
       | OpRefresh (_, d') -> dref := d'; print_string "v refresh"
       | OpParallel (_, _) -> print_string "v parallel"
       | OpParams (_, _) -> print_string "v params"
       | OpRoute (p, alt, acc, egr) ->
         (match find_scenario d p.q_scenario with
          | None -> print_string "v noscenario"
          | Some s ->
            let wft = wf_tables_b d p acc egr && wf_params_b p in
            let dom = wf && wft in
            let route_verdicts (r : route) =
              Printf.sprintf "C01=%s C02=%s C06=%s" (v01 (valid_itinerary_b d s p acc egr r))
                (v01 (limits_ok_b d s p r)) (v01 (totals_ok_b d p r)) in
            let status_ok = (match toks with _ :: "ok" :: _ -> true | _ -> false) in
            let status_noroute = (match toks with _ :: "noroute" :: _ -> true | _ -> false) in
            let reason = (match toks with _ :: "noroute" :: r :: _ -> ios r | _ -> -1) in
            (* optimality oracles *)
            let opt_verdict (r0 : route option) =
              if not (status_ok || status_noroute) then "C03=- C04=- C05=-" else
              if p.q_fwd then begin
                let c03dom = dom && pos && int_of_z p.q_maxfw <= 0 in
                let ea = if c03dom then earliest_arrival_ref d s p acc egr else None in
                let c03 = if not c03dom then "-" else
                    (match r0, ea with
                     | Some r, Some t -> v01 (int_of_z r.rt_arr = int_of_z t)
                     | None, None -> "1"
                     | _, _ -> "0") in
                let c05dom = c03dom && uni in
                let c05, ld = if not c05dom then "-", None else
                    (match r0 with
                     | Some r ->
                       let ld = latest_departure_ref d s p r.rt_arr p.q_time p.q_time acc egr in
                       (match ld with Some t -> v01 (int_of_z r.rt_dep = int_of_z t) | None -> "0"), ld
                     | None -> "-", None) in
                Printf.sprintf "C03=%s C04=- C05=%s ref_arr=%s ref_dep=%s" c03 c05 (opt_s ea) (opt_s ld)
              end else begin
                let c04dom = dom && pos && uni in
                let ld = if c04dom then latest_departure_ref d s p p.q_time Z0 p.q_time acc egr else None in
                let c04 = if not c04dom then "-" else
                    (match r0, ld with
                     | Some r, Some t -> v01 (int_of_z r.rt_dep = int_of_z t)
                     | None, None -> "1"
                     | _, _ -> "0") in
                Printf.sprintf "C03=- C04=%s C05=- ref_dep=%s" c04 (opt_s ld)
              end in
            (* reason oracle *)
            let c07 =
              if not status_noroute || not dom then "-" else
                let na = (acc = []) and ne = (egr = []) in
                let expected =
                  if na && ne then 5 else if na then 1 else if ne then 2
                  else if p.q_fwd then (if service_from_origin_b d s p acc then 0 else 3)
                  else (if service_to_destination_b d s p egr false then 0 else 4) in
                (* forward queries run a reverse pass too: reason 4 can legitimately not occur there *)
                v01 (reason = expected) ^ Printf.sprintf " exp_reason=%d" expected in
            if alt then begin
              match split_on "||" toks with
              | hd :: rs ->
                let routes = List.filter_map parse_route_tokens rs in
                let ok = (match hd with "alt" :: "ok" :: _ -> true | _ -> false) in
                if ok then begin
                  let total = (match hd with _ :: _ :: t :: _ -> ios t | _ -> -1) in
                  let n = List.length routes in
                  let verdicts = List.map route_verdicts routes in
                  let all_ok = List.for_all (fun v -> v = "C01=1 C02=1 C06=1") verdicts in
                  let lines = List.map (fun r -> sort_nat (route_lines d r)) routes in
                  let rec distinct = function [] -> true | x :: r -> not (List.exists (fun y -> list_eqb x y) r) && distinct r in
                  let r0 = (match routes with r :: _ -> Some r | [] -> None) in
                  let nobetter = (match r0 with
                      | None -> true
                      | Some r0 -> List.for_all (fun (r : route) ->
                          if p.q_fwd then int_of_z r.rt_arr >= int_of_z r0.rt_arr
                          else int_of_z r.rt_dep <= int_of_z r0.rt_dep) routes) in
                  Printf.printf "v alt n=%d total=%d each=%s distinct=%s caps=%s nobetter=%s dom=%s pos=%s uni=%s capoff=%s %s"
                    n total (v01 all_ok) (v01 (distinct lines)) (v01 (n <= 50 && total >= n && n >= 1)) (v01 nobetter)
                    (v01 dom) (v01 pos) (v01 uni) (v01 (int_of_z p.q_maxfw <= 0))
                    (String.concat " ; " verdicts)
                end else
                  Printf.printf "v alt fail C07=%s" c07
              | [] -> print_string "v alt parse-error"
            end else begin
              let r0 = parse_route_tokens (match split_on "|" toks with _ -> toks) in
              (match r0 with
               | Some r ->
                 Printf.printf "v route dom=%s %s %s C07=-" (v01 dom) (route_verdicts r) (opt_verdict r0)
               | None ->
                 if status_noroute then
                   Printf.printf "v route dom=%s C01=- C02=- C06=- %s C07=%s" (v01 dom) (opt_verdict None) c07
                 else Printf.printf "v route other %s" line)
            end)
       | OpAccess (p, rows) ->
         (match find_scenario d p.q_scenario with
          | None -> print_string "v noscenario"
          | Some s ->
            let wft = (if p.q_fwd then wf_tables_b d p rows [] else wf_tables_b d p [] rows) && wf_params_b p in
            let dom = wf && wft && pos && (if p.q_fwd then int_of_z p.q_maxfw <= 0 else uni) in
            (match toks with
             | "access" :: "ok" :: cnt :: total :: rest ->
               let groups = List.filter (fun g -> g <> []) (split_on "|" rest) in
               let impl = List.map (fun g -> match g with
                   | [ n; t; ttt; ntr ] -> (ios n, ios t, ios ttt, ios ntr)
                   | _ -> (-1, 0, 0, 0)) groups in
               let refmap = if p.q_fwd then reach_map_fwd_ref d s p rows else reach_map_rev_ref d s p rows in
               let refl = List.map (fun (n, t) -> (int_of_nat n, int_of_z t)) refmap in
               let qt = int_of_z p.q_time in
               (* nodeTime: forward = arrivalTime; reverse = arrivalTime - totalTravelTime *)
               let impl_nt = List.map (fun (n, t, ttt, _) -> (n, if p.q_fwd then t else t - ttt)) impl in
               let same = (List.sort compare impl_nt = List.sort compare refl) in
               let ttt_ok = List.for_all (fun (n, t, ttt, _) -> if p.q_fwd then ttt = t - qt else t = qt) impl in
               let once = (List.length (List.sort_uniq compare (List.map (fun (n, _, _, _) -> n) impl)) = List.length impl) in
               let tot_ok = (ios total = List.length d.d_nodes) && (ios cnt = List.length impl) in
               Printf.printf "v access dom=%s map=%s ttt=%s once=%s total=%s n=%d C07=-" (v01 dom) (v01 same) (v01 ttt_ok) (v01 once) (v01 tot_ok) (List.length impl)
             | "access" :: "noroute" :: r :: _ ->
               let refmap = if p.q_fwd then reach_map_fwd_ref d s p rows else reach_map_rev_ref d s p rows in
               let expected =
                 if rows = [] then (if p.q_fwd then 1 else 2)
                 else if p.q_fwd then (if service_from_origin_b d s p rows then -1 else 3)
                 else (if service_to_destination_b d s p rows true then -1 else 4) in
               Printf.printf "v access dom=%s map=%s noroute C07=%s exp_reason=%d" (v01 dom) (v01 (refmap = []))
                 (if wf && wft then v01 (ios r = expected) else "-") expected
             | _ -> Printf.printf "v access other %s" line))
       | OpOptimize (minw, (an, aw, ad), (en, ew, ed), legs) ->
         (* validity of the journey before and after the clean-up rewrites, judged on the routes that the
            model's emit produces from them (scenario 1, no limits) *)
         let p = { q_scenario = nat_of_int 1; q_time = Z0; q_minw = minw; q_maxtt = z_of_int max_int_c; q_maxacc = z_of_int max_int_c;
                   q_maxegr = z_of_int max_int_c; q_maxtr = z_of_int max_int_c; q_maxfw = z_of_int (-1); q_fwd = false; q_except_lines = [] } in
         (match find_scenario d (nat_of_int 1), journey_of d aw ad ew ed legs with
          | Some s, Some js_in ->
            let acc = [ { fp_node = an; fp_time = aw; fp_dist = ad } ] and egr = [ { fp_node = en; fp_time = ew; fp_dist = ed } ] in
            let dep_of js = (match js with _ :: j :: _ -> (match j.js_enter with Some b -> int_of_z b.c_dep - int_of_z (minw_true p b) - int_of_z aw | None -> 0) | _ -> 0) in
            let valid js = valid_itinerary_b d s p acc egr (emit d p (z_of_int (dep_of js)) js) in
            let vin = valid js_in in
            (match toks with
             | "optimize" :: "ok" :: rest ->
               let groups = split_on "|" rest in
               let used = (match groups with u :: _ -> u | [] -> []) in
               let out_legs = List.filter_map (fun g -> match g with
                   | [ t; es; xs; w; dd ] when t <> "W" -> Some (ns t, ns es, ns xs, zs w, zs dd)
                   | _ -> None) (match groups with _ :: r -> r | [] -> []) in
               (match journey_of d aw ad ew ed out_legs with
                | Some js_out ->
                  let vout = valid js_out in
                  Printf.printf "v optimize dom=%s in=%s out=%s used=%s C01=%s" (v01 wf) (v01 vin) (v01 vout) (String.concat "," used)
                    (if wf && vin then v01 vout else "-")
                | None -> Printf.printf "v optimize dom=%s in=%s out=unparsable C01=%s" (v01 wf) (v01 vin) (if wf && vin then "0" else "-"))
             | _ -> Printf.printf "v optimize dom=%s in=%s other C01=-" (v01 wf) (v01 vin))
          | _, _ -> print_string "v optimize badinput C01=-")
       | OpIndex _ -> print_string "v index");
      print_newline ()) ops;
  close_in ic

(* ---- C11 transformation: print the dataset with the trips excluded by a scenario removed and that
   scenario replaced by its all-inclusive version (Coq functions delete_excluded / all_inclusive) ---- *)
let print_dataset (d : data) =
  let pl l = Printf.printf " %d" (List.length l); List.iter (fun x -> Printf.printf " %d" (int_of_nat x)) l in
  print_string "dataset\nnodes"; pl d.d_nodes; print_newline ();
  let rows l = Printf.printf " %d" (List.length l); List.iter (fun r -> Printf.printf " %d %d %d" (int_of_nat r.fp_node) (int_of_z r.fp_time) (int_of_z r.fp_dist)) l in
  List.iter (fun (n, l) -> Printf.printf "fp %d" (int_of_nat n); rows l; print_newline ()) d.d_fp;
  List.iter (fun (n, l) -> Printf.printf "rfp %d" (int_of_nat n); rows l; print_newline ()) d.d_rfp;
  List.iter (fun l -> Printf.printf "line %d %d %d\n" (int_of_nat l.l_id) (int_of_nat l.l_agency) (int_of_nat l.l_mode)) d.d_lines;
  List.iter (fun p -> Printf.printf "path %d %d" (int_of_nat p.p_id) (int_of_nat p.p_line); pl p.p_nodes;
              Printf.printf " %d" (List.length p.p_dists); List.iter (fun x -> Printf.printf " %d" (int_of_z x)) p.p_dists; print_newline ()) d.d_paths;
  List.iter (fun t -> Printf.printf "trip %d %d %d %d" (int_of_nat t.t_id) (int_of_nat t.t_path) (int_of_nat t.t_service) (List.length t.t_times);
              List.iter (fun s -> Printf.printf " %d %d %d %d" (int_of_z s.st_arr) (int_of_z s.st_dep) (if s.st_cb then 1 else 0) (if s.st_cu then 1 else 0)) t.t_times;
              print_newline ()) d.d_trips;
  List.iter (fun s -> Printf.printf "scen %d" (int_of_nat s.s_id);
              List.iter pl [ s.s_services; s.s_onlyLines; s.s_onlyModes; s.s_onlyAgencies; s.s_onlyNodes; s.s_exceptLines; s.s_exceptModes; s.s_exceptAgencies; s.s_exceptNodes ];
              print_newline ()) d.d_scenarios;
  print_string "end\n"

let run_delete d sc =
  match find_scenario d (nat_of_int sc) with
  | None -> print_string "noscenario\n"
  | Some s ->
    let d' = delete_excluded d s in
    let s' = all_inclusive d s in
    let d'' = { d' with d_scenarios = List.map (fun x -> if int_of_nat x.s_id = sc then s' else x) d'.d_scenarios } in
    Printf.printf "# remaining %d of %d trips\n" (List.length d''.d_trips) (List.length d.d_trips);
    print_dataset d''

(* ---- C20: the model's handling of a router reply (Osrm.v) ---------------------------------------- *)
let run_osrm () =
  (* argv: osrm <fault> <maxt> <n> (node dur_tenths dist_tenths)*n *)
  let fault = Sys.argv.(2) in
  let maxt = z_of_int (int_of_string Sys.argv.(3)) in
  let n = int_of_string Sys.argv.(4) in
  let rows = List.init n (fun i -> (int_of_string Sys.argv.(5 + 3 * i), int_of_string Sys.argv.(6 + 3 * i), int_of_string Sys.argv.(7 + 3 * i))) in
  let asked = List.map (fun (nd, _, _) -> nat_of_int nd) rows in
  let num x = JNum (z_of_int x) in
  let table durs dists = XStatus (true, Some (JObj [ (O, JArr [ JArr durs ]); (S O, JArr [ JArr dists ]) ])) in
  let durs = num 0 :: List.map (fun (_, t, _) -> num t) rows and dists = num 0 :: List.map (fun (_, _, m) -> num m) rows in
  let rec take k l = if k <= 0 then [] else match l with [] -> [] | x :: r -> x :: take (k - 1) r in
  let x = match fault with
    | "refuse" | "drop" | "truncate" -> XThrow
    | "status500" -> XStatus (false, None)
    | "empty" | "nonjson" -> XStatus (true, None)
    | "nodurations" -> XStatus (true, Some (JObj [ (S (S O), JStr) ]))
    | "nulls" -> table (List.map (fun _ -> JNull) durs) (List.map (fun _ -> JNull) dists)
    | "fewer" -> let k = 1 + n / 2 in table (take k durs) (take k dists)
    | "more" -> table (durs @ [ num 10 ]) (dists @ [ num 10 ])
    | _ -> table durs dists in
  match osrm_rows x asked maxt with
  | Ok l -> print_string "ok"; List.iter (fun r -> Printf.printf " %d %d %d" (int_of_nat r.fp_node) (int_of_z r.fp_time) (int_of_z r.fp_dist)) l; print_newline ()
  | Exn _ -> print_string "exn\n"
  | UB _ -> print_string "ub\n"
  | _ -> print_string "other\n"

let () =
  if Sys.argv.(1) = "osrm" then (run_osrm (); exit 0);
  let mode = Sys.argv.(1) in
  load Sys.argv.(2);
  (match next () with "dataset" -> () | t -> failwith ("expected dataset, got " ^ t));
  let d = read_dataset () in
  let ops = read_ops () in
  match mode with
  | "model" -> run_model d ops
  | "oracle" -> run_oracle d ops Sys.argv.(3)
  | "delete" -> run_delete d (int_of_string Sys.argv.(3))
  | _ -> failwith "mode"
