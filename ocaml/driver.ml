(* driver.ml — reads a case file (one dataset + operations), runs the extracted Coq model, prints one
   canonical result line per operation.  The C++ harness prints the same lines from the implementation. *)
open Model

let rec nat_of_int n = if n <= 0 then O else S (nat_of_int (n - 1))
let rec int_of_nat = function O -> 0 | S n -> 1 + int_of_nat n

let rec pos_of_int n = if n = 1 then XH else if n land 1 = 0 then XO (pos_of_int (n lsr 1)) else XI (pos_of_int (n lsr 1))
let z_of_int n = if n = 0 then Z0 else if n > 0 then Zpos (pos_of_int n) else Zneg (pos_of_int (-n))
let rec int_of_pos = function XH -> 1 | XO p -> 2 * int_of_pos p | XI p -> 2 * int_of_pos p + 1
let int_of_z = function Z0 -> 0 | Zpos p -> int_of_pos p | Zneg p -> - (int_of_pos p)

(* token stream *)
let tokens : string list ref = ref []
let load file =
  let ic = open_in file in
  let buf = Buffer.create 65536 in
  (try while true do
      let l = input_line ic in
      let l = match String.index_opt l '#' with Some i -> String.sub l 0 i | None -> l in
      Buffer.add_string buf l; Buffer.add_char buf ' ' done with End_of_file -> ());
  close_in ic;
  tokens := List.filter (fun s -> s <> "") (String.split_on_char ' ' (Buffer.contents buf))
let next () = match !tokens with [] -> failwith "eof" | t :: r -> tokens := r; t
let peek () = match !tokens with [] -> None | t :: _ -> Some t
let int () = int_of_string (next ())
let nat () = nat_of_int (int ())
let zz () = z_of_int (int ())
let rec times n f = if n <= 0 then [] else let x = f () in x :: times (n - 1) f
let counted f = let n = int () in times n f
let row () = let n = nat () in let t = zz () in let d = zz () in { fp_node = n; fp_time = t; fp_dist = d }

type ds = { mutable nodes : nat list; mutable fp : (nat * fprow list) list; mutable rfp : (nat * fprow list) list;
            mutable lines : line list; mutable paths : path list; mutable trips : trip list;
            mutable scens : scenario list }

let read_dataset () =
  let d = { nodes = []; fp = []; rfp = []; lines = []; paths = []; trips = []; scens = [] } in
  let fin = ref false in
  while not !fin do
    match next () with
    | "nodes" -> d.nodes <- counted nat
    | "fp" -> let n = nat () in let rows = counted row in d.fp <- d.fp @ [ (n, rows) ]
    | "rfp" -> let n = nat () in let rows = counted row in d.rfp <- d.rfp @ [ (n, rows) ]
    | "line" -> let id = nat () in let ag = nat () in let m = nat () in
        d.lines <- d.lines @ [ { l_id = id; l_agency = ag; l_mode = m } ]
    | "path" -> let id = nat () in let l = nat () in let ns = counted nat in let ds = counted zz in
        d.paths <- d.paths @ [ { p_id = id; p_line = l; p_nodes = ns; p_dists = ds } ]
    | "trip" -> let id = nat () in let p = nat () in let s = nat () in
        let sts = counted (fun () -> let a = zz () in let dd = zz () in let cb = int () in let cu = int () in
                             { st_arr = a; st_dep = dd; st_cb = (cb = 1); st_cu = (cu = 1) }) in
        d.trips <- d.trips @ [ { t_id = id; t_path = p; t_service = s; t_times = sts } ]
    | "scen" -> let id = nat () in
        let sv = counted nat in let ol = counted nat in let om = counted nat in let oa = counted nat in
        let on = counted nat in let el = counted nat in let em = counted nat in let ea = counted nat in
        let en = counted nat in
        d.scens <- d.scens @ [ { s_id = id; s_services = sv; s_onlyLines = ol; s_onlyModes = om; s_onlyAgencies = oa;
                                 s_onlyNodes = on; s_exceptLines = el; s_exceptModes = em; s_exceptAgencies = ea;
                                 s_exceptNodes = en } ]
    | "end" -> fin := true
    | t -> failwith ("dataset: unexpected token " ^ t)
  done;
  { d_nodes = d.nodes; d_fp = d.fp; d_rfp = d.rfp; d_lines = d.lines; d_paths = d.paths; d_trips = d.trips;
    d_scenarios = d.scens }

let read_params () =
  let sc = nat () in let time = zz () in let minw = zz () in let maxtt = zz () in let maxacc = zz () in
  let maxegr = zz () in let maxtr = zz () in let maxfw = zz () in let fwd = int () in
  { q_scenario = sc; q_time = time; q_minw = minw; q_maxtt = maxtt; q_maxacc = maxacc; q_maxegr = maxegr;
    q_maxtr = maxtr; q_maxfw = maxfw; q_fwd = (fwd = 1); q_except_lines = [] }

let b = Buffer.create 4096
let pi n = Buffer.add_char b ' '; Buffer.add_string b (string_of_int n)
let pz z = pi (int_of_z z)
let pn n = pi (int_of_nat n)
let ps s = Buffer.add_string b s

let print_route (r : route) =
  ps "route ok";
  List.iter pz [ r.rt_dep; r.rt_arr; r.rt_ttt; r.rt_tdist; r.rt_tivt; r.rt_tivd; r.rt_tnt; r.rt_tntd; r.rt_nboard;
                 r.rt_ntransf; r.rt_trwalk; r.rt_trdist; r.rt_acc; r.rt_accd; r.rt_egr; r.rt_egrd; r.rt_trwait;
                 r.rt_fwait; r.rt_twait ];
  List.iter (fun s ->
      match s with
      | SWalk (k, t, d, dep, arr, rdy) -> ps " | W"; pn k; List.iter pz [ t; d; dep; arr; rdy ]
      | SBoard (t, l, s, n, dep, w) -> ps " | B"; List.iter pn [ t; l; s; n ]; List.iter pz [ dep; w ]
      | SUnboard (t, l, s, n, arr, ivt, ivd) -> ps " | U"; List.iter pn [ t; l; s; n ]; List.iter pz [ arr; ivt; ivd ])
    r.rt_steps

let print_fail kind = function
  | NoRouting r -> ps kind; ps " noroute"; pn r
  | ParamErr c -> ps kind; ps " paramerr"; pn c
  | DataErr c -> ps kind; ps " dataerr"; pn c
  | Exn t -> ps kind; ps " exn"; pn t
  | NoReply -> ps kind; ps " noreply"
  | Crash -> ps kind; ps " crash"
  | UB t -> ps kind; ps " ub"; pn t
  | Hang -> ps kind; ps " hang"
  | Ok _ -> ()

let flush_line () = print_string (Buffer.contents b); print_newline (); Buffer.clear b


(* ---- operations ------------------------------------------------------------------------------ *)
type op =
  | OpRoute of params * bool * fprow list * fprow list
  | OpAccess of params * fprow list
  | OpIndex of nat
  | OpParams of string * (string * string) list
  | OpRefresh of int * data
  | OpParallel of int * int list
  | OpOptimize of z * (nat * z * z) * (nat * z * z) * (nat * nat * nat * z * z) list

let read_ops () =
  let ops = ref [] in
  let continue = ref true in
  while !continue do
    match peek () with
    | None -> continue := false
    | Some _ ->
      (match next () with
       | "route" ->
         let p = read_params () in
         let alt = int () in
         let acc = counted row in
         let egr = counted row in
         ops := OpRoute (p, alt = 1, acc, egr) :: !ops
       | "access" ->
         let p = read_params () in
         let rows = counted row in
         ops := OpAccess (p, rows) :: !ops
       | "index" -> let sc = nat () in ops := OpIndex sc :: !ops
       | "params" ->
         let kind = next () in
         let kv = counted (fun () -> let a = next () in let b = next () in (a, b)) in
         ops := OpParams (kind, kv) :: !ops
       | "refresh" ->
         let k = int () in
         (match next () with "dataset" -> () | t -> failwith ("refresh: expected dataset, got " ^ t));
         let d' = read_dataset () in
         ops := OpRefresh (k, d') :: !ops
       | "parallel" -> let n = int () in let sl = counted int in ops := OpParallel (n, sl) :: !ops
       | "optimize" ->
         let minw = zz () in
         let an = nat () in let aw = zz () in let ad = zz () in
         let en = nat () in let ew = zz () in let ed = zz () in
         let legs = counted (fun () -> let t = nat () in let es = nat () in let xs = nat () in let w = zz () in let dd = zz () in (t, es, xs, w, dd)) in
         ops := OpOptimize (minw, (an, aw, ad), (en, ew, ed), legs) :: !ops
       | t -> failwith ("unexpected op " ^ t))
  done;
  List.rev !ops

let walk_js w dd = { js_enter = None; js_exit = None; js_trip = None; js_walk = w; js_same = false; js_dist = dd }
let journey_of d aw ad ew ed legs =
  let ls = List.map (fun (t, es, xs, w, dd) ->
      match find_conn d t es, find_conn d t xs with
      | Some en, Some ex -> Some { js_enter = Some en; js_exit = Some ex; js_trip = Some t; js_walk = w; js_same = false; js_dist = dd }
      | _, _ -> None) legs in
  if List.exists (fun x -> x = None) ls then None
  else Some (walk_js aw ad :: List.filter_map (fun x -> x) ls @ [ walk_js ew ed ])

(* ---- parameter factories (Params.v) ------------------------------------------------------------- *)
let unhex h = if h = "-" then "" else String.init (String.length h / 2) (fun i -> Char.chr (int_of_string ("0x" ^ String.sub h (2 * i) 2)))
let codes s = List.init (String.length s) (fun i -> nat_of_int (Char.code s.[i]))
let key_of = function
  | "origin" -> KOrigin | "destination" -> KDestination | "place" -> KPlace | "alternatives" -> KAlternatives
  | "time_of_trip" -> KTime | "time_type" -> KTimeType | "scenario_id" -> KScenario | "min_waiting_time" -> KMinWait
  | "max_travel_time" -> KMaxTT | "max_access_travel_time" -> KMaxAcc | "max_egress_travel_time" -> KMaxEgr
  | "max_transfer_travel_time" -> KMaxTr | "max_first_waiting_time" -> KMaxFW | _ -> KOther
(* boost::uuids::string_generator on the texts the generators produce: 36 characters with dashes or 32 hex digits *)
let is_hex c = (c >= '0' && c <= '9') || (c >= 'a' && c <= 'f') || (c >= 'A' && c <= 'F')
let uuid_ok s =
  let n = String.length s in
  if n = 36 then (let ok = ref true in String.iteri (fun i c -> if i = 8 || i = 13 || i = 18 || i = 23 then (if c <> '-' then ok := false) else if not (is_hex c) then ok := false) s; !ok)
  else if n = 32 then (let ok = ref true in String.iter (fun c -> if not (is_hex c) then ok := false) s; !ok)
  else false
let resolve_scenario d (v : nat list) : nat option option =
  let s = String.init (List.length v) (fun i -> Char.chr (int_of_nat (List.nth v i))) in
  if not (uuid_ok s) then None
  else if String.length s = 36 && String.sub s 0 24 = "00000005-0000-4000-8000-" then
    (match int_of_string_opt (String.sub s 24 12) with
     | Some id -> (match find_scenario d (nat_of_int id) with Some _ -> Some (Some (nat_of_int id)) | None -> Some None)
     | None -> Some None)
  else Some None
let services_of d sid = match find_scenario d sid with Some s -> nat_of_int (List.length s.s_services) | None -> O
let print_common (c : common) alt =
  ps "params ok"; List.iter pz [ c.cm_time; c.cm_minw; c.cm_maxtt; c.cm_maxacc; c.cm_maxegr; c.cm_maxtr; c.cm_maxfw ];
  pi (if c.cm_fwd then 1 else 0); pi (if alt then 1 else 0);
  (match c.cm_scen with Some s -> pn s | None -> ps " none")
let errname = function
  | C_EMPTY_SCENARIO -> "EMPTY_SCENARIO" | C_MISSING_PARAM_SCENARIO -> "MISSING_PARAM_SCENARIO" | C_MISSING_PARAM_ORIGIN -> "MISSING_PARAM_ORIGIN"
  | C_MISSING_PARAM_DESTINATION -> "MISSING_PARAM_DESTINATION" | C_MISSING_PARAM_TIME_OF_TRIP -> "MISSING_PARAM_TIME_OF_TRIP"
  | C_INVALID_ORIGIN -> "INVALID_ORIGIN" | C_INVALID_DESTINATION -> "INVALID_DESTINATION" | C_INVALID_NUMERICAL_DATA -> "INVALID_NUMERICAL_DATA"
  | C_MISSING_PARAM_PLACE -> "MISSING_PARAM_PLACE" | C_INVALID_PLACE -> "INVALID_PLACE" | C_PARAM_ERROR_UNKNOWN -> "PARAM_ERROR_UNKNOWN"
let run_params d kind kv =
  let q = List.map (fun (a, b) -> (key_of (unhex a), codes (unhex b))) kv in
  let http = function
    | Http (code, BDataError st) -> Printf.sprintf " | http %d dataerror %d" (int_of_nat code) (int_of_nat st)
    | Http (code, BQueryError c) -> Printf.sprintf " | http %d queryerror %s" (int_of_nat code) (errname c)
    | Http (code, BAnswer (_, c, _)) -> Printf.sprintf " | http %d answer %d %d" (int_of_nat code) (int_of_z c.cm_time) (if c.cm_fwd then 0 else 1) in
  let fin h = ps h in
  if kind = "update" then begin
    (* kv: (name, known?) pairs: value "1" = known cache name *)
    let names = List.map (fun (_, b) -> if unhex b = "1" then Some O else None) kv in
    (match handle_update names with
     | UError -> ps "update error"
     | USuccess l -> ps "update success"; List.iter pn l)
  end else
  let _ = fin in
  if kind = "route" then begin
    (match create_route (resolve_scenario d) (services_of d) q with
     | POk (c, alt) -> print_common c alt
     | PErr e -> ps "params err"; pn e
     | PExn -> ps "params exn");
    ps (http (handle_route (resolve_scenario d) (services_of d) (fun _ _ -> false) O q))
  end else begin
    (match create_access (resolve_scenario d) (services_of d) q with
     | POk c -> print_common c false
     | PErr e -> ps "params err"; pn e
     | PExn -> ps "params exn");
    ps (http (handle_access (resolve_scenario d) (services_of d) (fun _ _ -> false) O q))
  end

let run_model d0 ops =
  let dref = ref d0 in
  List.iter (fun op ->
      let d = !dref in
      (match op with
       | OpRefresh (_, d') ->
         (* spec_ops (Proofs/ServerInv.v, C15_general): later requests are answered on the new data *)
         dref := d';
         let status = if d'.d_nodes = [] then 8 else if d'.d_lines = [] then 3 else if d'.d_paths = [] then 4 else if d'.d_scenarios = [] then 6 else if d'.d_trips = [] then 7 else 0 in
         ps "refresh ok"; pi status
       | OpParallel (_, _) -> ps "parallel"
       | OpParams (kind, kv) -> run_params d kind kv
       | OpRoute (p, alt, acc, egr) ->
         (match find_scenario d p.q_scenario with
          | None -> ps "route noscenario"
          | Some s ->
            let cs = conn_set d s in
            if alt then
              (match alternatives d cs p acc egr with
               | Ok (rs, total) ->
                 ps "alt ok"; pz total; pi (List.length rs);
                 List.iter (fun r -> ps " || "; print_route r) rs
               | o -> print_fail "alt" o)
            else
              (match calc_single d cs p acc egr true with
               | Ok (r, used) -> print_route r; ps " | opt"; List.iter pn used
               | o -> print_fail "route" o))
       | OpAccess (p, rows) ->
         (match find_scenario d p.q_scenario with
          | None -> ps "access noscenario"
          | Some s ->
            let cs = conn_set d s in
            (match calc_allnodes d cs p rows with
             | Ok (l, total) ->
               ps "access ok"; pi (List.length l); pz total;
               List.iter (fun a -> ps " |"; pn a.an_node; pz a.an_time; pz a.an_ttt; pz a.an_ntr) l
             | o -> print_fail "access" o))
       | OpOptimize (_, (_, aw, ad), (_, ew, ed), legs) ->
         (match journey_of d aw ad ew ed legs with
          | None -> ps "optimize badinput"
          | Some js ->
            (match optimize (oPT_FUEL d) d js [] [] with
             | OptDone (js1, used) ->
               ps "optimize ok"; List.iter pn used;
               List.iter (fun j ->
                   match j.js_enter, j.js_exit, j.js_trip with
                   | Some en, Some ex, Some t -> ps " |"; pn t; pn en.c_seq; pn ex.c_seq; pz j.js_walk; pz j.js_dist
                   | _ -> ps " | W"; pz j.js_walk; pz j.js_dist) js1
             | OptUB -> ps "optimize ub 1"
             | OptHang -> ps "optimize hang"))
       | OpIndex sc ->
         (match find_scenario d sc with
          | None -> ps "index noscenario"
          | Some s ->
            let cs = conn_set d s in
            ps "index f"; List.iter pn cs.cs_fidx; ps " r"; List.iter pn cs.cs_ridx;
            ps " lf";
            for h = -2 to 40 do
              match fwd_entry cs (z_of_int h) with None -> ps " oob" | Some i -> pn i
            done;
            ps " lr";
            for h = -2 to 40 do
              match rev_entry cs (z_of_int h) with None -> ps " oob" | Some i -> pn i
            done));
      flush_line ()) ops

(* ---- oracle mode: proved/declarative decision procedures run on the implementation's output ---- *)
let split_on sep l =
  let rec go cur acc = function
    | [] -> List.rev (List.rev cur :: acc)
    | x :: r -> if x = sep then go [] (List.rev cur :: acc) r else go (x :: cur) acc r in
  go [] [] l

let ios = int_of_string
let zs s = z_of_int (ios s)
let ns s = nat_of_int (ios s)

let parse_route_tokens (toks : string list) : route option =
  (* toks: "route" "ok" 19 ints, then groups separated by "|" *)
  match split_on "|" toks with
  | hd :: groups ->
    (match hd with
     | "route" :: "ok" :: f when List.length f = 19 ->
       let f = Array.of_list (List.map zs f) in
       let steps = List.filter_map (fun g ->
           match g with
           | [ "W"; k; t; d; dep; arr; rdy ] -> Some (SWalk (ns k, zs t, zs d, zs dep, zs arr, zs rdy))
           | [ "B"; t; l; s; n; dep; w ] -> Some (SBoard (ns t, ns l, ns s, ns n, zs dep, zs w))
           | [ "U"; t; l; s; n; arr; ivt; ivd ] -> Some (SUnboard (ns t, ns l, ns s, ns n, zs arr, zs ivt, zs ivd))
           | _ -> None) groups in
       Some { rt_dep = f.(0); rt_arr = f.(1); rt_ttt = f.(2); rt_tdist = f.(3); rt_tivt = f.(4); rt_tivd = f.(5);
              rt_tnt = f.(6); rt_tntd = f.(7); rt_nboard = f.(8); rt_ntransf = f.(9); rt_trwalk = f.(10);
              rt_trdist = f.(11); rt_acc = f.(12); rt_accd = f.(13); rt_egr = f.(14); rt_egrd = f.(15);
              rt_trwait = f.(16); rt_fwait = f.(17); rt_twait = f.(18); rt_steps = steps }
     | _ -> None)
  | [] -> None

let max_int_c = 2147483647
let words s = List.filter (fun x -> x <> "") (String.split_on_char ' ' s)
let v01 bo = if bo then "1" else "0"
let opt_s = function None -> "none" | Some z -> string_of_int (int_of_z z)

let run_oracle d0 ops implfile =
  let dref = ref d0 in
  let ic = open_in implfile in
  let d = d0 in
  let wf = wf_data_b d in
  let pos = pos_hops_b d in
  let uni = uniform_wait_b d in
  Printf.printf "dataset wf=%s pos=%s uni=%s\n" (v01 wf) (v01 pos) (v01 uni);
  List.iter (fun op ->
      let line = try input_line ic with End_of_file -> "missing" in
      let toks = words line in
      let d = !dref in
      let wf = wf_data_b d in let pos = pos_hops_b d in let uni = uniform_wait_b d in
      (match op with
       | OpRefresh (_, d') -> dref := d'; print_string "v refresh"
       | OpParallel (_, _) -> print_string "v parallel"
       | OpParams (_, _) -> print_string "v params"
       | OpRoute (p, alt, acc, egr) ->
         (match find_scenario d p.q_scenario with
          | None -> print_string "v noscenario"
          | Some s ->
            let wft = wf_tables_b d p acc egr && wf_params_b p in
            let dom = wf && wft in
            let route_verdicts (r : route) =
              Printf.sprintf "C01=%s C02=%s C06=%s" (v01 (valid_itinerary_b d s p acc egr r))
                (v01 (limits_ok_b d s p r)) (v01 (totals_ok_b d p r && walk_dists_ok_b d r && vehicle_dists_ok_b d r)) in
            let status_ok = (match toks with _ :: "ok" :: _ -> true | _ -> false) in
            let status_noroute = (match toks with _ :: "noroute" :: _ -> true | _ -> false) in
            let reason = (match toks with _ :: "noroute" :: r :: _ -> ios r | _ -> -1) in
            (* optimality oracles *)
            let opt_verdict (r0 : route option) =
              if not (status_ok || status_noroute) then "C03=- C04=- C05=-" else
              if p.q_fwd then begin
                let c03dom = dom && pos && int_of_z p.q_maxfw <= 0 in
                let ea = if c03dom then earliest_arrival_ref d s p acc egr else None in
                let c03 = if not c03dom then "-" else
                    (match r0, ea with
                     | Some r, Some t -> v01 (int_of_z r.rt_arr = int_of_z t)
                     | None, None -> "1"
                     | _, _ -> "0") in
                let c05dom = c03dom && uni in
                let c05, ld = if not c05dom then "-", None else
                    (match r0 with
                     | Some r ->
                       let ld = latest_departure_ref d s p r.rt_arr p.q_time p.q_time acc egr in
                       (match ld with Some t -> v01 (int_of_z r.rt_dep = int_of_z t) | None -> "0"), ld
                     | None -> "-", None) in
                Printf.sprintf "C03=%s C04=- C05=%s ref_arr=%s ref_dep=%s" c03 c05 (opt_s ea) (opt_s ld)
              end else begin
                let c04dom = dom && pos && uni in
                let ld = if c04dom then latest_departure_ref d s p p.q_time Z0 p.q_time acc egr else None in
                let c04 = if not c04dom then "-" else
                    (match r0, ld with
                     | Some r, Some t -> v01 (int_of_z r.rt_dep = int_of_z t)
                     | None, None -> "1"
                     | _, _ -> "0") in
                Printf.sprintf "C03=- C04=%s C05=- ref_dep=%s" c04 (opt_s ld)
              end in
            (* reason oracle *)
            let c07 =
              if not status_noroute || not dom then "-" else
                let na = (acc = []) and ne = (egr = []) in
                let expected =
                  if na && ne then 5 else if na then 1 else if ne then 2
                  else if p.q_fwd then (if service_from_origin_b d s p acc then 0 else 3)
                  else (if service_to_destination_b d s p egr false then 0 else 4) in
                (* forward queries run a reverse pass too: reason 4 can legitimately not occur there *)
                v01 (reason = expected) ^ Printf.sprintf " exp_reason=%d" expected in
            if alt then begin
              match split_on "||" toks with
              | hd :: rs ->
                let routes = List.filter_map parse_route_tokens rs in
                let ok = (match hd with "alt" :: "ok" :: _ -> true | _ -> false) in
                if ok then begin
                  let total = (match hd with _ :: _ :: t :: _ -> ios t | _ -> -1) in
                  let n = List.length routes in
                  let verdicts = List.map route_verdicts routes in
                  let all_ok = List.for_all (fun v -> v = "C01=1 C02=1 C06=1") verdicts in
                  let lines = List.map (fun r -> sort_nat (route_lines d r)) routes in
                  let rec distinct = function [] -> true | x :: r -> not (List.exists (fun y -> list_eqb x y) r) && distinct r in
                  let r0 = (match routes with r :: _ -> Some r | [] -> None) in
                  let nobetter = (match r0 with
                      | None -> true
                      | Some r0 -> List.for_all (fun (r : route) ->
                          if p.q_fwd then int_of_z r.rt_arr >= int_of_z r0.rt_arr
                          else int_of_z r.rt_dep <= int_of_z r0.rt_dep) routes) in
                  Printf.printf "v alt n=%d total=%d each=%s distinct=%s caps=%s nobetter=%s dom=%s pos=%s uni=%s capoff=%s %s"
                    n total (v01 all_ok) (v01 (distinct lines)) (v01 (n <= 50 && total >= n && n >= 1)) (v01 nobetter)
                    (v01 dom) (v01 pos) (v01 uni) (v01 (int_of_z p.q_maxfw <= 0))
                    (String.concat " ; " verdicts)
                end else
                  Printf.printf "v alt fail C07=%s" c07
              | [] -> print_string "v alt parse-error"
            end else begin
              let r0 = parse_route_tokens (match split_on "|" toks with _ -> toks) in
              (match r0 with
               | Some r ->
                 Printf.printf "v route dom=%s %s %s C07=-" (v01 dom) (route_verdicts r) (opt_verdict r0)
               | None ->
                 if status_noroute then
                   Printf.printf "v route dom=%s C01=- C02=- C06=- %s C07=%s" (v01 dom) (opt_verdict None) c07
                 else Printf.printf "v route other %s" line)
            end)
       | OpAccess (p, rows) ->
         (match find_scenario d p.q_scenario with
          | None -> print_string "v noscenario"
          | Some s ->
            let wft = (if p.q_fwd then wf_tables_b d p rows [] else wf_tables_b d p [] rows) && wf_params_b p in
            let dom = wf && wft && pos && (if p.q_fwd then int_of_z p.q_maxfw <= 0 else uni) in
            (match toks with
             | "access" :: "ok" :: cnt :: total :: rest ->
               let groups = List.filter (fun g -> g <> []) (split_on "|" rest) in
               let impl = List.map (fun g -> match g with
                   | [ n; t; ttt; ntr ] -> (ios n, ios t, ios ttt, ios ntr)
                   | _ -> (-1, 0, 0, 0)) groups in
               let refmap = if p.q_fwd then reach_map_fwd_ref d s p rows else reach_map_rev_ref d s p rows in
               let refl = List.map (fun (n, t) -> (int_of_nat n, int_of_z t)) refmap in
               let qt = int_of_z p.q_time in
               (* nodeTime: forward = arrivalTime; reverse = arrivalTime - totalTravelTime *)
               let impl_nt = List.map (fun (n, t, ttt, _) -> (n, if p.q_fwd then t else t - ttt)) impl in
               let same = (List.sort compare impl_nt = List.sort compare refl) in
               let ttt_ok = List.for_all (fun (n, t, ttt, _) -> if p.q_fwd then ttt = t - qt else t = qt) impl in
               let once = (List.length (List.sort_uniq compare (List.map (fun (n, _, _, _) -> n) impl)) = List.length impl) in
               let tot_ok = (ios total = List.length d.d_nodes) && (ios cnt = List.length impl) in
               Printf.printf "v access dom=%s map=%s ttt=%s once=%s total=%s n=%d C07=-" (v01 dom) (v01 same) (v01 ttt_ok) (v01 once) (v01 tot_ok) (List.length impl)
             | "access" :: "noroute" :: r :: _ ->
               let refmap = if p.q_fwd then reach_map_fwd_ref d s p rows else reach_map_rev_ref d s p rows in
               let expected =
                 if rows = [] then (if p.q_fwd then 1 else 2)
                 else if p.q_fwd then (if service_from_origin_b d s p rows then -1 else 3)
                 else (if service_to_destination_b d s p rows true then -1 else 4) in
               Printf.printf "v access dom=%s map=%s noroute C07=%s exp_reason=%d" (v01 dom) (v01 (refmap = []))
                 (if wf && wft then v01 (ios r = expected) else "-") expected
             | _ -> Printf.printf "v access other %s" line))
       | OpOptimize (minw, (an, aw, ad), (en, ew, ed), legs) ->
         (* validity of the journey before and after the clean-up rewrites, judged on the routes that the
            model's emit produces from them (scenario 1, no limits) *)
         let p = { q_scenario = nat_of_int 1; q_time = Z0; q_minw = minw; q_maxtt = z_of_int max_int_c; q_maxacc = z_of_int max_int_c;
                   q_maxegr = z_of_int max_int_c; q_maxtr = z_of_int max_int_c; q_maxfw = z_of_int (-1); q_fwd = false; q_except_lines = [] } in
         (match find_scenario d (nat_of_int 1), journey_of d aw ad ew ed legs with
          | Some s, Some js_in ->
            let acc = [ { fp_node = an; fp_time = aw; fp_dist = ad } ] and egr = [ { fp_node = en; fp_time = ew; fp_dist = ed } ] in
            let dep_of js = (match js with _ :: j :: _ -> (match j.js_enter with Some b -> int_of_z b.c_dep - int_of_z (minw_true p b) - int_of_z aw | None -> 0) | _ -> 0) in
            let valid js = valid_itinerary_b d s p acc egr (emit d p (z_of_int (dep_of js)) js) in
            let vin = valid js_in in
            (match toks with
             | "optimize" :: "ok" :: rest ->
               let groups = split_on "|" rest in
               let used = (match groups with u :: _ -> u | [] -> []) in
               let out_legs = List.filter_map (fun g -> match g with
                   | [ t; es; xs; w; dd ] when t <> "W" -> Some (ns t, ns es, ns xs, zs w, zs dd)
                   | _ -> None) (match groups with _ :: r -> r | [] -> []) in
               (match journey_of d aw ad ew ed out_legs with
                | Some js_out ->
                  let vout = valid js_out in
                  Printf.printf "v optimize dom=%s in=%s out=%s used=%s C01=%s" (v01 wf) (v01 vin) (v01 vout) (String.concat "," used)
                    (if wf && vin then v01 vout else "-")
                | None -> Printf.printf "v optimize dom=%s in=%s out=unparsable C01=%s" (v01 wf) (v01 vin) (if wf && vin then "0" else "-"))
             | _ -> Printf.printf "v optimize dom=%s in=%s other C01=-" (v01 wf) (v01 vin))
          | _, _ -> print_string "v optimize badinput C01=-")
       | OpIndex _ -> print_string "v index");
      print_newline ()) ops;
  close_in ic

(* ---- C11 transformation: print the dataset with the trips excluded by a scenario removed and that
   scenario replaced by its all-inclusive version (Coq functions delete_excluded / all_inclusive) ---- *)
let print_dataset (d : data) =
  let pl l = Printf.printf " %d" (List.length l); List.iter (fun x -> Printf.printf " %d" (int_of_nat x)) l in
  print_string "dataset\nnodes"; pl d.d_nodes; print_newline ();
  let rows l = Printf.printf " %d" (List.length l); List.iter (fun r -> Printf.printf " %d %d %d" (int_of_nat r.fp_node) (int_of_z r.fp_time) (int_of_z r.fp_dist)) l in
  List.iter (fun (n, l) -> Printf.printf "fp %d" (int_of_nat n); rows l; print_newline ()) d.d_fp;
  List.iter (fun (n, l) -> Printf.printf "rfp %d" (int_of_nat n); rows l; print_newline ()) d.d_rfp;
  List.iter (fun l -> Printf.printf "line %d %d %d\n" (int_of_nat l.l_id) (int_of_nat l.l_agency) (int_of_nat l.l_mode)) d.d_lines;
  List.iter (fun p -> Printf.printf "path %d %d" (int_of_nat p.p_id) (int_of_nat p.p_line); pl p.p_nodes;
              Printf.printf " %d" (List.length p.p_dists); List.iter (fun x -> Printf.printf " %d" (int_of_z x)) p.p_dists; print_newline ()) d.d_paths;
  List.iter (fun t -> Printf.printf "trip %d %d %d %d" (int_of_nat t.t_id) (int_of_nat t.t_path) (int_of_nat t.t_service) (List.length t.t_times);
              List.iter (fun s -> Printf.printf " %d %d %d %d" (int_of_z s.st_arr) (int_of_z s.st_dep) (if s.st_cb then 1 else 0) (if s.st_cu then 1 else 0)) t.t_times;
              print_newline ()) d.d_trips;
  List.iter (fun s -> Printf.printf "scen %d" (int_of_nat s.s_id);
              List.iter pl [ s.s_services; s.s_onlyLines; s.s_onlyModes; s.s_onlyAgencies; s.s_onlyNodes; s.s_exceptLines; s.s_exceptModes; s.s_exceptAgencies; s.s_exceptNodes ];
              print_newline ()) d.d_scenarios;
  print_string "end\n"

let run_delete d sc =
  match find_scenario d (nat_of_int sc) with
  | None -> print_string "noscenario\n"
  | Some s ->
    let d' = delete_excluded d s in
    let s' = all_inclusive d s in
    let d'' = { d' with d_scenarios = List.map (fun x -> if int_of_nat x.s_id = sc then s' else x) d'.d_scenarios } in
    Printf.printf "# remaining %d of %d trips\n" (List.length d''.d_trips) (List.length d.d_trips);
    print_dataset d''

(* ---- C20: the model's handling of a router reply (Osrm.v) ---------------------------------------- *)
let run_osrm () =
  (* argv: osrm <fault> <maxt> <n> (node dur_tenths dist_tenths)*n *)
  let fault = Sys.argv.(2) in
  let maxt = z_of_int (int_of_string Sys.argv.(3)) in
  let n = int_of_string Sys.argv.(4) in
  let rows = List.init n (fun i -> (int_of_string Sys.argv.(5 + 3 * i), int_of_string Sys.argv.(6 + 3 * i), int_of_string Sys.argv.(7 + 3 * i))) in
  let asked = List.map (fun (nd, _, _) -> nat_of_int nd) rows in
  let num x = JNum (z_of_int x) in
  let table durs dists = XStatus (true, Some (JObj [ (O, JArr [ JArr durs ]); (S O, JArr [ JArr dists ]) ])) in
  let durs = num 0 :: List.map (fun (_, t, _) -> num t) rows and dists = num 0 :: List.map (fun (_, _, m) -> num m) rows in
  let rec take k l = if k <= 0 then [] else match l with [] -> [] | x :: r -> x :: take (k - 1) r in
  let x = match fault with
    | "refuse" | "drop" | "truncate" -> XThrow
    | "status500" -> XStatus (false, None)
    | "empty" | "nonjson" | "streamcut_str" | "streamcut_key" -> XStatus (true, None)
    | "nodurations" -> XStatus (true, Some (JObj [ (S (S O), JStr) ]))
    | "nulls" -> table (List.map (fun _ -> JNull) durs) (List.map (fun _ -> JNull) dists)
    | "fewer" -> let k = 1 + n / 2 in table (take k durs) (take k dists)
    | "emptyrows" -> table [] []
    | "emptydist" -> table durs []
    | "fewer_dist" -> let k = 1 + n / 2 in table durs (take k dists)
    | "fewer_dur" -> let k = 1 + n / 2 in table (take k durs) dists
    | "nodistances" -> XStatus (true, Some (JObj [ (O, JArr [ JArr durs ]) ]))
    | "nulldur_scalar_dist" -> XStatus (true, Some (JObj [ (O, JArr [ JNull ]); (S O, JNum (z_of_int 50)) ]))   (* {"durations":[null],"distances":5}: tenths *)
    | "more" -> table (durs @ [ num 10 ]) (dists @ [ num 10 ])
    | _ -> table durs dists in
  match osrm_rows x asked maxt with
  | Ok l -> print_string "ok"; List.iter (fun r -> Printf.printf " %d %d %d" (int_of_nat r.fp_node) (int_of_z r.fp_time) (int_of_z r.fp_dist)) l; print_newline ()
  | Exn _ -> print_string "exn\n"
  | UB _ -> print_string "ub\n"
  | _ -> print_string "other\n"

(* ---- load mode: Loader2.load_all / update on decoded-level files (correspondence with the real loaders) ----
   input:   dataset <B> end  [layout]  [from dataset <A> end]
            { case <label>  <fault>*  [start healthy|faulted]  { update <k> <name>*k }* }*
   faults (applied to the messages `encode_all B` produces, in the order given):
     missing <coll> | garbled <coll>          coll = agencies services nodes lines paths scenarios dataSources
                                              FMissing (file deleted) / FGarbled [] (0-byte file: the packed reader throws
                                              kj::Exception before any entry is read)
     missing_linefile <line> | garbled_linefile <line> | missing_all_linefiles
     missing_stopfile <stop> | garbled_stopfile <stop>
     inc <name>                               the cross-file inconsistencies of tools/faults.py inconsistencies()
   layout: the decoded image of the directory tools/l3.py write_cache writes rather than encode_all's own choice:
     agency 0 and service 0 always listed, dataSources present with no entry, consecutive trips of one service of a
     line file share a schedule.
   output:  one line per case:
     <label> load <STATUS> <MISSING_DATA code | -> agencies=.. services=.. nodes=.. lines=.. paths=.. scenarios=.. trips=.. read_error=0|1
       { | update <names> <STATUS> <code> <sizes> refs_safe=0|1 }*
   update: Loader2.update (files of B with the faults) names state, state = load_all of the healthy files of A
   (start healthy) or of the faulted files themselves (start faulted); consecutive updates continue from the state reached. *)
let unknown_id = nat_of_int 9999        (* faults.UNKNOWN: ...-000000009999 under a kind prefix no object has *)
let unknown_mode = nat_of_int 99        (* "hovercraft": not one of the 15 mode shortnames *)

let status_name st =
  match int_of_nat st with
  | 0 -> "READY -" | 2 -> "NO_AGENCIES MISSING_DATA_AGENCIES" | 3 -> "NO_LINES MISSING_DATA_LINES"
  | 4 -> "NO_PATHS MISSING_DATA_PATHS" | 5 -> "NO_SERVICES MISSING_DATA_SERVICES" | 6 -> "NO_SCENARIOS MISSING_DATA_SCENARIOS"
  | 7 -> "NO_SCHEDULES MISSING_DATA_SCHEDULES" | 8 -> "NO_NODES MISSING_DATA_NODES" | n -> Printf.sprintf "STATUS_%d ?" n

let sizes_text (m : mem) =
  let z = sizes_of m in
  Printf.sprintf "agencies=%d services=%d nodes=%d lines=%d paths=%d scenarios=%d trips=%d"
    (int_of_nat z.z_agencies) (int_of_nat z.z_services) (int_of_nat z.z_nodes) (int_of_nat z.z_lines)
    (int_of_nat z.z_paths) (int_of_nat z.z_scenarios) (int_of_nat z.z_trips)

let map_dec g = function FDecoded m -> FDecoded (g m) | x -> x
let map_first g = function [] -> [] | x :: r -> g x :: r
let rec map_first_such p g = function [] -> [] | x :: r -> if p x then g x :: r else x :: map_first_such p g r
let at_id (f : nat -> 'a) (id : nat) (v : 'a) : nat -> 'a = fun k -> if k = id then v else f k

let layout_of (d : data) (f : fs) : fs =
  let with0 mk ids = if List.mem O ids then List.map mk ids else List.map mk (O :: ids) in
  let rec group = function
    | a :: b :: r when a.sm_service = b.sm_service -> group ({ a with sm_trips = a.sm_trips @ b.sm_trips } :: r)
    | a :: r -> a :: group r
    | [] -> [] in
  { f with f_agencies = FDecoded (with0 (fun a -> { am_id = Some a; am_rest_ok = true }) (agencies_of d));
           f_services = FDecoded (with0 (fun a -> { vm_id = Some a; vm_rest_ok = true }) (Model.services_of d));
           f_datasources = FDecoded [];
           f_line = (fun l -> map_dec group (f.f_line l)) }

let garbled = FGarbled []
let coll_fault (f : fs) (missing : bool) (c : string) : fs =
  match c with
  | "agencies" -> { f with f_agencies = if missing then FMissing else garbled }
  | "services" -> { f with f_services = if missing then FMissing else garbled }
  | "nodes" -> { f with f_nodes = if missing then FMissing else garbled }
  | "lines" -> { f with f_lines = if missing then FMissing else garbled }
  | "paths" -> { f with f_paths = if missing then FMissing else garbled }
  | "scenarios" -> { f with f_scenarios = if missing then FMissing else garbled }
  | "dataSources" -> { f with f_datasources = if missing then FMissing else garbled }
  | c -> failwith ("load: unknown collection " ^ c)

let has_trips = function FDecoded m -> List.exists (fun s -> s.sm_trips <> []) m | _ -> false
(* the first per-line file (order of the lines collection) that holds a trip; g rewrites its schedule list *)
let on_first_trip_file (d : data) (f : fs) (g : sched_msg list -> sched_msg list) : fs =
  match List.find_opt (fun l -> has_trips (f.f_line l.l_id)) d.d_lines with
  | None -> f
  | Some l -> { f with f_line = at_id f.f_line l.l_id (map_dec g (f.f_line l.l_id)) }
let on_first_trip d f (g : trip_msg -> trip_msg) =
  on_first_trip_file d f (map_first_such (fun s -> s.sm_trips <> []) (fun s -> { s with sm_trips = map_first g s.sm_trips }))

let inconsistency (d : data) (f : fs) (name : string) : fs =
  let unk = Some unknown_id in
  let zs l = List.map z_of_int l in
  match name with
  | "trip_unknown_path" -> on_first_trip d f (fun t -> { t with tm_path = unk })
  | "trip_bad_uuid_text" -> on_first_trip d f (fun t -> { t with tm_path = None })
  | "trip_unknown_service" -> on_first_trip_file d f (map_first (fun s -> { s with sm_service = unk }))
  | "trip_no_stop_times" -> on_first_trip d f (fun t -> { t with tm_arr = []; tm_dep = []; tm_cb = []; tm_cu = [] })
  | "trip_too_many_stop_times" ->
    let extra = zs [ 90000; 90100; 90200; 90300; 90400; 90500; 90600; 90700 ] and ones = zs [ 1; 1; 1; 1; 1; 1; 1; 1 ] in
    on_first_trip d f (fun t -> { t with tm_arr = t.tm_arr @ extra; tm_dep = t.tm_dep @ extra; tm_cb = t.tm_cb @ ones; tm_cu = t.tm_cu @ ones })
  | "trip_one_more_stop_time" ->
    (* exactly ONE stop time more than before (= one more than the path has stops for the generated trips), later than the
       last one: the boundary of the count test *)
    on_first_trip d f (fun t ->
        let last l = List.fold_left (fun _ x -> x) (z_of_int 0) l in
        let x = z_of_int (int_of_z (last t.tm_dep) + 60) in
        { t with tm_arr = t.tm_arr @ [ x ]; tm_dep = t.tm_dep @ [ x ]; tm_cb = t.tm_cb @ zs [ 1 ]; tm_cu = t.tm_cu @ zs [ 1 ] })
  | "trip_short_flag_array" -> on_first_trip d f (fun t -> { t with tm_cu = zs [ 1 ] })
  | "trip_arrival_before_departure" ->
    on_first_trip d f (fun t -> match t.tm_arr, t.tm_dep with
        | a0 :: _ :: ar, d0 :: _ -> { t with tm_arr = a0 :: z_of_int (int_of_z d0 - 1) :: ar }
        | _, _ -> t)
  | "trip_first_arrival_after_departure" ->
    (* the FIRST stop's arrival is after its departure: not one of the order tests of the schedule loader (the arrival at
       the first stop is never used), the trip loads *)
    on_first_trip d f (fun t -> match t.tm_arr, t.tm_dep with
        | _ :: ar, d0 :: _ -> { t with tm_arr = z_of_int (int_of_z d0 + 7) :: ar }
        | _, _ -> t)
  | "trip_negative_departure" ->
    on_first_trip d f (fun t -> match t.tm_dep with _ :: r -> { t with tm_dep = z_of_int (-1) :: r } | [] -> t)
  | "trips_times_backwards" ->
    let back t = { t with tm_arr = List.map (fun _ -> z_of_int (-5)) t.tm_arr } in
    { f with f_line = (fun l -> map_dec (List.map (fun s -> { s with sm_trips = List.map back s.sm_trips })) (f.f_line l)) }
  | "line_unknown_agency" -> { f with f_lines = map_dec (map_first (fun l -> { l with lm_agency = unk })) f.f_lines }
  | "line_unknown_mode" -> { f with f_lines = map_dec (map_first (fun l -> { l with lm_mode = unknown_mode })) f.f_lines }
  | "nodefile_unknown_stop" | "nodefile_bad_uuid_text" ->
    (match d.d_nodes with
     | [] -> f
     | n :: _ ->
       let v = if name = "nodefile_unknown_stop" then unk else None in
       { f with f_stop0 = at_id f.f_stop0 n (map_dec (map_first (fun r -> { r with fm_node = v })) (f.f_stop0 n)) })
  | "nodefile_short_times" ->
    (* the travel-time list of the LAST stop file is empty: with at least one transferable stop listed the loader returns
       -EBADMSG before it reads a row (nodes_cache_fetcher.cpp:128-136, the length test of /repo 71e00b0), which is what a
       decoder exception before the first row does *)
    (match List.rev d.d_nodes with
     | [] -> f
     | n :: _ -> (match f.f_stop0 n with
         | FDecoded (_ :: _) -> { f with f_stop0 = at_id f.f_stop0 n garbled }
         | _ -> f))
  | "nodefile_negative_walk_time" ->
    (* the LAST row of every stop file gets the walking time -7: the row is skipped (nodes_cache_fetcher.cpp, /repo 7fd3701, D15) *)
    let rec map_last g = function [] -> [] | [x] -> [g x] | x :: tl -> x :: map_last g tl in
    { f with f_stop0 = (fun n -> map_dec (map_last (fun r -> { r with fm_time = z_of_int (-7) })) (f.f_stop0 n)) }
  | "path_unknown_stop" ->
    { f with f_paths = map_dec (map_first_such (fun p -> p.pm_nodes <> []) (fun p -> { p with pm_nodes = map_first (fun _ -> unk) p.pm_nodes })) f.f_paths }
  | "path_unknown_line" -> { f with f_paths = map_dec (map_first (fun p -> { p with pm_line = unk })) f.f_paths }
  | "path_bad_json" -> { f with f_paths = map_dec (map_first (fun p -> { p with pm_segs = None })) f.f_paths }
  | "scenario_unknown_service" ->
    { f with f_scenarios = map_dec (map_first_such (fun c -> c.cm_services <> []) (fun c -> { c with cm_services = map_first (fun _ -> unk) c.cm_services })) f.f_scenarios }
  | "scenario_unknown_line_and_mode" ->
    let step1 = map_first_such (fun c -> c.cm_exceptLines = []) (fun c -> { c with cm_exceptLines = [ unk ] }) in
    let step2 = map_first_such (fun c -> c.cm_onlyModes = []) (fun c -> { c with cm_onlyModes = [ unknown_mode ] }) in
    { f with f_scenarios = map_dec (fun l -> step2 (step1 l)) f.f_scenarios }
  | "scenario_bad_uuid_text" -> { f with f_scenarios = map_dec (map_first (fun c -> { c with cm_id = None })) f.f_scenarios }
  | "agency_bad_uuid_text" -> { f with f_agencies = map_dec (map_first (fun a -> { a with am_id = None })) f.f_agencies }
  | "node_bad_uuid_text" -> { f with f_nodes = map_dec (map_first (fun _ -> None)) f.f_nodes }
  | n -> failwith ("load: unknown inconsistency " ^ n)

let cname_of = function
  | "all" -> CAll | "data_sources" -> CName KDataSources | "persons" -> CName KPersons | "od_trips" -> CName KOdTrips
  | "agencies" -> CName KAgencies | "services" -> CName KServices | "nodes" -> CName KNodes | "lines" -> CName KLines
  | "paths" -> CName KPaths | "scenarios" -> CName KScenarios | "schedules" -> CName KSchedules | _ -> CUnknown

let run_load (db : data) =
  let layout = (match peek () with Some "layout" -> ignore (next ()); true | _ -> false) in
  let files d = let f = encode_all d in if layout then layout_of d f else f in
  let da = (match peek () with
      | Some "from" -> ignore (next ()); (match next () with "dataset" -> () | t -> failwith ("from: expected dataset, got " ^ t)); read_dataset ()
      | _ -> db) in
  let healthy = lazy (fst (load_all (files da))) in
  let is_case () = (match peek () with Some "case" | None -> true | _ -> false) in
  while peek () <> None do
    (match next () with "case" -> () | t -> failwith ("load: expected case, got " ^ t));
    let label = next () in
    let f = ref (files db) in
    let state = ref None in
    let start_faulted = ref false in
    let out = Buffer.create 256 in
    let emitted_load = ref false in
    let emit_load () =
      if not !emitted_load then begin
        emitted_load := true;
        let (m, err) = load_steps !f in
        let (m', st) = load_all !f in
        assert (sizes_of m = sizes_of m');
        Buffer.add_string out (Printf.sprintf "%s load %s %s read_error=%d" label (status_name st) (sizes_text m) (if err then 1 else 0))
      end in
    while not (is_case ()) do
      match next () with
      | "missing" -> f := coll_fault !f true (next ())
      | "garbled" -> f := coll_fault !f false (next ())
      | "missing_linefile" -> let l = nat () in f := { !f with f_line = at_id !f.f_line l FMissing }
      | "garbled_linefile" -> let l = nat () in f := { !f with f_line = at_id !f.f_line l garbled }
      | "missing_all_linefiles" -> f := { !f with f_line = (fun _ -> FMissing) }
      | "missing_stopfile" -> let n = nat () in f := { !f with f_stop0 = at_id !f.f_stop0 n FMissing }
      | "garbled_stopfile" -> let n = nat () in f := { !f with f_stop0 = at_id !f.f_stop0 n garbled }
      | "inc" -> f := inconsistency db !f (next ())
      | "start" -> (match next () with "healthy" -> start_faulted := false | "faulted" -> start_faulted := true | t -> failwith ("start " ^ t))
      | "update" ->
        emit_load ();
        let names = counted next in
        let s0 = (match !state with
            | Some s -> s
            | None -> { sv_mem = (if !start_faulted then fst (load_all !f) else Lazy.force healthy); sv_dangling = [] }) in
        let s1 = update !f (List.map cname_of names) s0 in
        state := Some s1;
        Buffer.add_string out (Printf.sprintf " | update %s %s %s refs_safe=%d" (String.concat "," names) (status_name (status_of s1))
                                 (sizes_text s1.sv_mem) (if refs_safe s1 then 1 else 0))
      | t -> failwith ("load: unexpected token " ^ t)
    done;
    emit_load ();
    print_string (Buffer.contents out); print_newline ()
  done


let () =
  if Sys.argv.(1) = "osrm" then (run_osrm (); exit 0);
  let mode = Sys.argv.(1) in
  load Sys.argv.(2);
  (match next () with "dataset" -> () | t -> failwith ("expected dataset, got " ^ t));
  let d = read_dataset () in
  if mode = "load" then (run_load d; exit 0);
  let ops = read_ops () in
  match mode with
  | "model" -> run_model d ops
  | "oracle" -> run_oracle d ops Sys.argv.(3)
  | "delete" -> run_delete d (int_of_string Sys.argv.(3))
  | _ -> failwith "mode"
