// l2.cpp — L2 correspondence harness: runs the real TransitData / ConnectionSet / Calculator of /repo on
// a case file (one dataset + operations) and prints one canonical line per operation, in the same
// format as ocaml/driver.ml prints for the Coq model.
#include <cstdio>
#include <cstdlib>
#include <cstring>
#include <csignal>
#include <csetjmp>
#include <fstream>
#include <sstream>
#include <iostream>
#include <vector>
#include <map>
#include <memory>
#include <deque>
#include <optional>
#include <unistd.h>
#include <sys/resource.h>
#include <boost/uuid/uuid.hpp>
#include <boost/uuid/string_generator.hpp>
#include "spdlog/spdlog.h"
#include "spdlog/sinks/base_sink.h"

#include "data_fetcher.hpp"
#include "mode.hpp"
#include "data_source.hpp"
#include "person.hpp"
#include "od_trip.hpp"
#include "agency.hpp"
#include "service.hpp"
#include "node.hpp"
#include "line.hpp"
#include "path.hpp"
#include "scenario.hpp"
#include "trip.hpp"
#include "connection.hpp"
#include "point.hpp"
#include "geofilter.hpp"
#include "parameters.hpp"
#include "routing_result.hpp"
#define private public
#include "connection_set.hpp"
#undef private
#include "transit_data.hpp"
#include "calculator.hpp"
#include "result_to_v2.hpp"

using namespace TrRouting;

static boost::uuids::uuid uuidOf(int kind, int id) {
  char buf[64];
  snprintf(buf, sizeof buf, "%08d-0000-4000-8000-%012d", kind, id);
  return boost::uuids::string_generator()(std::string(buf));
}
enum { K_NODE = 1, K_LINE = 2, K_PATH = 3, K_TRIP = 4, K_SCEN = 5, K_AGENCY = 6, K_SERVICE = 7 };

struct Row { int node, time, dist; };
struct StopTime { int arr, dep, cb, cu; };
struct LineD { int id, agency, mode; };
struct PathD { int id, line; std::vector<int> nodes; std::vector<int> dists; };
struct TripD { int id, path, service; std::vector<StopTime> times; };
struct ScenD { int id; std::vector<int> l[9]; };
struct Dataset {
  std::vector<int> nodes;
  std::vector<std::pair<int, std::vector<Row>>> fp, rfp;
  std::vector<LineD> lines;
  std::vector<PathD> paths;
  std::vector<TripD> trips;
  std::vector<ScenD> scens;
};

static std::string modeName(int m) { return m == 0 ? std::string("transferable") : "m" + std::to_string(m); }

class TableDataFetcher : public DataFetcher {
public:
  Dataset &ds;
  TableDataFetcher(Dataset &d) : ds(d) {}
  const std::map<std::string, Mode> getModes() override {
    std::map<std::string, Mode> modes;
    modes.emplace("transferable", Mode("transferable", "Transferable", -1, -1));
    for (auto &l : ds.lines) if (l.mode != 0) modes.emplace(modeName(l.mode), Mode(modeName(l.mode), modeName(l.mode), 3, 700));
    for (auto &s : ds.scens) for (int k : {2, 6}) for (int m : s.l[k]) if (m != 0) modes.emplace(modeName(m), Mode(modeName(m), modeName(m), 3, 700));
    return modes;
  }
  int getDataSources(std::map<boost::uuids::uuid, DataSource> &, std::string) override { return 0; }
  int getPersons(std::map<boost::uuids::uuid, Person> &, const std::map<boost::uuids::uuid, DataSource> &, std::string) override { return 0; }
  int getOdTrips(std::map<boost::uuids::uuid, OdTrip> &, const std::map<boost::uuids::uuid, DataSource> &, const std::map<boost::uuids::uuid, Person> &, const std::map<boost::uuids::uuid, Node> &, std::string) override { return 0; }
  int getAgencies(std::map<boost::uuids::uuid, Agency> &ts, std::string) override {
    ts.clear();
    std::vector<int> ids;
    for (auto &l : ds.lines) ids.push_back(l.agency);
    for (auto &s : ds.scens) for (int k : {3, 7}) for (int a : s.l[k]) ids.push_back(a);
    ids.push_back(0);
    for (int a : ids) { Agency ag; ag.uuid = uuidOf(K_AGENCY, a); ag.name = "a" + std::to_string(a); ag.acronym = ag.name; ts[ag.uuid] = ag; }
    return 0;
  }
  int getServices(std::map<boost::uuids::uuid, Service> &ts, std::string) override {
    ts.clear();
    std::vector<int> ids;
    for (auto &t : ds.trips) ids.push_back(t.service);
    for (auto &s : ds.scens) for (int a : s.l[0]) ids.push_back(a);
    ids.push_back(0);
    for (int a : ids) { Service sv; sv.uuid = uuidOf(K_SERVICE, a); sv.name = "s" + std::to_string(a); ts[sv.uuid] = sv; }
    return 0;
  }
  int getNodes(std::map<boost::uuids::uuid, Node> &ts, std::string) override {
    ts.clear();
    for (int n : ds.nodes)
      ts.emplace(uuidOf(K_NODE, n), Node(uuidOf(K_NODE, n), n, std::to_string(n), "n" + std::to_string(n), "", std::make_unique<Point>(45.0, -73.0)));
    for (auto &p : ds.fp) { Node &n = ts.at(uuidOf(K_NODE, p.first)); for (auto &r : p.second) n.transferableNodes.push_back(NodeTimeDistance(ts.at(uuidOf(K_NODE, r.node)), r.time, r.dist)); }
    for (auto &p : ds.rfp) { Node &n = ts.at(uuidOf(K_NODE, p.first)); for (auto &r : p.second) n.reverseTransferableNodes.push_back(NodeTimeDistance(ts.at(uuidOf(K_NODE, r.node)), r.time, r.dist)); }
    return 0;
  }
  int getLines(std::map<boost::uuids::uuid, Line> &ts, const std::map<boost::uuids::uuid, Agency> &agencies, const std::map<std::string, Mode> &modes, std::string) override {
    ts.clear();
    for (auto &l : ds.lines)
      ts.emplace(uuidOf(K_LINE, l.id), Line(uuidOf(K_LINE, l.id), agencies.at(uuidOf(K_AGENCY, l.agency)), modes.at(modeName(l.mode)), "L" + std::to_string(l.id), "line " + std::to_string(l.id), "", 0));
    return 0;
  }
  int getPaths(std::map<boost::uuids::uuid, Path> &ts, const std::map<boost::uuids::uuid, Line> &lines, const std::map<boost::uuids::uuid, Node> &nodes, std::string) override {
    ts.clear();
    for (auto &p : ds.paths) {
      std::vector<std::reference_wrapper<const Node>> nodesRef;
      for (int n : p.nodes) nodesRef.push_back(nodes.at(uuidOf(K_NODE, n)));
      std::vector<std::reference_wrapper<const Trip>> noTrips;
      std::vector<int> tt;
      ts.emplace(uuidOf(K_PATH, p.id), Path(uuidOf(K_PATH, p.id), lines.at(uuidOf(K_LINE, p.line)), "outbound", "", nodesRef, noTrips, tt, p.dists));
    }
    return 0;
  }
  int getScenarios(std::map<boost::uuids::uuid, Scenario> &ts, const std::map<boost::uuids::uuid, Service> &services, const std::map<boost::uuids::uuid, Line> &lines, const std::map<boost::uuids::uuid, Agency> &agencies, const std::map<boost::uuids::uuid, Node> &nodes, const std::map<std::string, Mode> &modes, std::string) override {
    ts.clear();
    for (auto &s : ds.scens) {
      auto u = uuidOf(K_SCEN, s.id);
      Scenario &sc = ts[u];
      sc.uuid = u; sc.name = "scen" + std::to_string(s.id);
      for (int x : s.l[0]) sc.servicesList.push_back(services.at(uuidOf(K_SERVICE, x)));
      for (int x : s.l[1]) sc.onlyLines.push_back(lines.at(uuidOf(K_LINE, x)));
      for (int x : s.l[2]) sc.onlyModes.push_back(modes.at(modeName(x)));
      for (int x : s.l[3]) sc.onlyAgencies.push_back(agencies.at(uuidOf(K_AGENCY, x)));
      for (int x : s.l[4]) sc.onlyNodes.push_back(nodes.at(uuidOf(K_NODE, x)));
      for (int x : s.l[5]) sc.exceptLines.push_back(lines.at(uuidOf(K_LINE, x)));
      for (int x : s.l[6]) sc.exceptModes.push_back(modes.at(modeName(x)));
      for (int x : s.l[7]) sc.exceptAgencies.push_back(agencies.at(uuidOf(K_AGENCY, x)));
      for (int x : s.l[8]) sc.exceptNodes.push_back(nodes.at(uuidOf(K_NODE, x)));
    }
    return 0;
  }
  // same construction as trips_and_connections_cache_fetcher.cpp:95-123 (the real loader is tied at L3)
  int getSchedules(std::map<boost::uuids::uuid, Trip> &trips, const std::map<boost::uuids::uuid, Line> &, std::map<boost::uuids::uuid, Path> &paths, const std::map<boost::uuids::uuid, Service> &services, std::vector<Connection> &connections, std::string) override {
    trips.clear();
    connections.clear();
    size_t total = 0;
    for (auto &t : ds.trips) total += t.times.size();
    connections.reserve(total + 1);
    for (auto &t : ds.trips) {
      Path &path = paths.at(uuidOf(K_PATH, t.path));
      const Line &line = path.line;
      auto tu = uuidOf(K_TRIP, t.id);
      trips.emplace(tu, Trip(tu, line.agency, line, path, line.mode, services.at(uuidOf(K_SERVICE, t.service)), line.allowSameLineTransfers));
      Trip &trip = trips.at(tu);
      path.tripsRef.push_back(trip);
      size_t cnt = std::min(t.times.size(), path.nodesRef.size());
      trip.connectionDepartureTimes.resize(t.times.size());
      for (size_t i = 0; i + 1 < cnt; i++) {
        connections.push_back(Connection(path.nodesRef[i].get(), path.nodesRef[i + 1].get(), t.times[i].dep, t.times[i + 1].arr, trip,
                                         t.times[i].cb == 1, t.times[i + 1].cu == 1, i + 1, trip.allowSameLineTransfers,
                                         line.mode.isTransferable() ? 0 : -1));
        trip.connectionDepartureTimes[i] = t.times[i].dep;
      }
    }
    return 0;
  }
};

class TableGeoFilter : public GeoFilter {
public:
  std::vector<Row> acc, egr;
  int calls = 0;
  std::vector<NodeTimeDistance> getAccessibleNodesFootpathsFromPoint(const Point &point, const std::map<boost::uuids::uuid, Node> &nodes, int, float, bool) override {
    calls++;
    std::vector<NodeTimeDistance> out;
    for (auto &r : (point.latitude < 1.5 ? acc : egr)) out.push_back(NodeTimeDistance(nodes.at(uuidOf(K_NODE, r.node)), r.time, r.dist));
    return out;
  }
};

// ---- capture of "optimization case used" debug lines -------------------------------------------
static thread_local std::vector<std::string> g_optlines;
class CaptureSink : public spdlog::sinks::base_sink<spdlog::details::null_mutex> {
protected:
  void sink_it_(const spdlog::details::log_msg &msg) override {
    std::string s(msg.payload.data(), msg.payload.size());
    if (s.find("optimization case used") != std::string::npos) g_optlines.push_back(s);
  }
  void flush_() override {}
};

// ---- forced schedules at the yield points of getConnectionsForScenario (C14) ---------------------
#include <mutex>
#include <condition_variable>
#include <thread>
static std::mutex g_sm;
static std::condition_variable g_scv;
static std::vector<int> g_sched;
static size_t g_spos = 0;
static std::vector<char> g_tdone;
static thread_local int t_idx = -1;
static std::vector<std::string> g_trace;
static void schedAdvance() { while (g_spos < g_sched.size() && (g_sched[g_spos] < 0 || g_sched[g_spos] >= (int)g_tdone.size() || g_tdone[g_sched[g_spos]])) g_spos++; }
// free-running mode (op stress): no thread is ever parked; a thread gives up its time slice at a yield point with
// probability g_free_yield percent (its own generator), otherwise the hook does nothing
#include <atomic>
#include <chrono>
static std::atomic<int> g_free_yield{-1};
static thread_local unsigned long long t_rng = 0x9E3779B97F4A7C15ull;
static inline unsigned long long tRand() { t_rng ^= t_rng << 13; t_rng ^= t_rng >> 7; t_rng ^= t_rng << 17; return t_rng; }
extern "C" void trrouting_verif_point(const char *point) {
  int fy = g_free_yield.load(std::memory_order_relaxed);
  if (fy >= 0) { if (fy > 0 && (int)(tRand() % 100) < fy) std::this_thread::yield(); return; }
  if (t_idx < 0) return;
  std::unique_lock<std::mutex> lk(g_sm);
  schedAdvance();
  g_scv.wait(lk, [] { schedAdvance(); return g_spos >= g_sched.size() || g_sched[g_spos] == t_idx; });
  if (g_spos < g_sched.size()) g_spos++;
  g_trace.push_back(std::to_string(t_idx) + ":" + point);
  schedAdvance();
  g_scv.notify_all();
}
static void schedThreadDone() {
  std::unique_lock<std::mutex> lk(g_sm);
  g_tdone[t_idx] = 1;
  schedAdvance();
  g_scv.notify_all();
}

// ---- tokens -------------------------------------------------------------------------------------
static std::vector<std::string> toks;
static size_t tp = 0;
static std::string nextTok() { if (tp >= toks.size()) { fprintf(stderr, "eof\n"); exit(2); } return toks[tp++]; }
static int nextInt() { return atoi(nextTok().c_str()); }
static std::vector<int> countedInts() { int n = nextInt(); std::vector<int> v; for (int i = 0; i < n; i++) v.push_back(nextInt()); return v; }
static std::vector<Row> countedRows() { int n = nextInt(); std::vector<Row> v; for (int i = 0; i < n; i++) { Row r; r.node = nextInt(); r.time = nextInt(); r.dist = nextInt(); v.push_back(r); } return v; }

static thread_local std::ostringstream out;
static thread_local const char *g_kind = "route";
static sigjmp_buf g_jmp;
static volatile sig_atomic_t g_jmp_armed = 0;

static void flushLine() { std::string s = out.str(); s += "\n"; fwrite(s.data(), 1, s.size(), stdout); fflush(stdout); out.str(""); out.clear(); }

static void onSignal(int sig) {
  if (sig == SIGABRT && g_jmp_armed) { g_jmp_armed = 0; siglongjmp(g_jmp, 1); }
  const char *tail = (sig == SIGALRM) ? " hang\n" : " ub 1\n";
  (void)!write(1, g_kind, strlen(g_kind));
  (void)!write(1, tail, strlen(tail));
  _exit(sig == SIGALRM ? 3 : 4);
}

static int idOfUuid(const boost::uuids::uuid &u) {
  // last 12 hex digits are the decimal id
  std::string s = boost::uuids::to_string(u);
  return atoi(s.substr(24).c_str());
}

static void printRoute(const SingleCalculationResult &r) {
  out << "route ok " << r.departureTime << " " << r.arrivalTime << " " << r.totalTravelTime << " " << r.totalDistance << " "
      << r.totalInVehicleTime << " " << r.totalInVehicleDistance << " " << r.totalNonTransitTravelTime << " " << r.totalNonTransitDistance << " "
      << r.numberOfBoardings << " " << r.numberOfTransfers << " " << r.transferWalkingTime << " " << r.transferWalkingDistance << " "
      << r.accessTravelTime << " " << r.accessDistance << " " << r.egressTravelTime << " " << r.egressDistance << " "
      << r.transferWaitingTime << " " << r.firstWaitingTime << " " << r.totalWaitingTime;
  for (auto &sp : r.steps) {
    const RoutingStep *s = sp.get();
    if (s->action == result_step_type::WALKING) {
      auto *w = static_cast<const WalkingStep *>(s);
      int k = w->walkingType == walking_step_type::ACCESS ? 0 : (w->walkingType == walking_step_type::EGRESS ? 1 : 2);
      out << " | W " << k << " " << w->travelTime << " " << w->distanceMeters << " " << w->departureTime << " " << w->arrivalTime << " " << w->readyToBoardAt;
    } else if (s->action == result_step_type::BOARDING) {
      auto *b = static_cast<const BoardingStep *>(s);
      out << " | B " << idOfUuid(b->trip.uuid) << " " << b->legSequenceInTrip << " " << b->stopSequenceInTrip << " " << idOfUuid(b->node.uuid) << " " << b->departureTime << " " << b->waitingTime;
    } else {
      auto *u = static_cast<const UnboardingStep *>(s);
      out << " | U " << idOfUuid(u->trip.uuid) << " " << u->legSequenceInTrip << " " << u->stopSequenceInTrip << " " << idOfUuid(u->node.uuid) << " " << u->arrivalTime << " " << u->inVehicleTime << " " << u->inVehicleDistanceMeters;
    }
  }
}

// The same text as printRoute, but read back from the JSON the /v2/route renderer (result_to_v2.cpp) produces for the
// route: every route of every operation is rendered and compared with the result object, so that the rendering layer is
// covered at L2 volume (field mapping, order of routes and steps).
static std::string routeTextFromJson(const nlohmann::json &j) {
  std::ostringstream o;
  static const char *TOTALS[] = {"departureTime", "arrivalTime", "totalTravelTime", "totalDistance", "totalInVehicleTime",
    "totalInVehicleDistance", "totalNonTransitTravelTime", "totalNonTransitDistance", "numberOfBoardings", "numberOfTransfers",
    "transferWalkingTime", "transferWalkingDistance", "accessTravelTime", "accessDistance", "egressTravelTime", "egressDistance",
    "transferWaitingTime", "firstWaitingTime", "totalWaitingTime"};
  o << "route ok";
  for (const char *k : TOTALS) o << " " << j.at(k).get<long long>();
  boost::uuids::string_generator gen;
  for (const auto &s : j.at("steps")) {
    std::string a = s.at("action").get<std::string>();
    if (a == "walking") {
      std::string t = s.at("type").get<std::string>();
      int k = t == "access" ? 0 : (t == "egress" ? 1 : 2);
      o << " | W " << k << " " << s.at("travelTime").get<long long>() << " " << s.at("distance").get<long long>() << " "
        << s.at("departureTime").get<long long>() << " " << s.at("arrivalTime").get<long long>() << " "
        << (s.contains("readyToBoardAt") ? s.at("readyToBoardAt").get<long long>() : -1LL);
    } else if (a == "boarding") {
      o << " | B " << idOfUuid(gen(s.at("tripUuid").get<std::string>())) << " " << s.at("legSequenceInTrip").get<long long>() << " "
        << s.at("stopSequenceInTrip").get<long long>() << " " << idOfUuid(gen(s.at("nodeUuid").get<std::string>())) << " "
        << s.at("departureTime").get<long long>() << " " << s.at("waitingTime").get<long long>();
    } else {
      o << " | U " << idOfUuid(gen(s.at("tripUuid").get<std::string>())) << " " << s.at("legSequenceInTrip").get<long long>() << " "
        << s.at("stopSequenceInTrip").get<long long>() << " " << idOfUuid(gen(s.at("nodeUuid").get<std::string>())) << " "
        << s.at("arrivalTime").get<long long>() << " " << s.at("inVehicleTime").get<long long>() << " "
        << s.at("inVehicleDistance").get<long long>();
    }
  }
  return o.str();
}

static std::string routeText(const SingleCalculationResult &r) {
  std::string keep = out.str();
  out.str(""); out.clear();
  printRoute(r);
  std::string t = out.str();
  out.str(""); out.clear();
  out << keep;
  return t;
}

// appends " | RENDER <what>" to the output when the rendered JSON does not say what the result object says
static void checkRenderSingle(SingleCalculationResult &res, RouteParameters &params) {
  try {
    nlohmann::json j = ResultToV2Response::resultToJsonString(res, params);
    const auto &routes = j.at("result").at("routes");
    if (j.at("status").get<std::string>() != "success" || routes.size() != 1) { out << " | RENDER shape"; return; }
    if (routeTextFromJson(routes.at(0)) != routeText(res)) out << " | RENDER route 0";
  } catch (std::exception &e) { out << " | RENDER exception"; }
}

static void checkRenderAlternatives(AlternativesResult &res, RouteParameters &params) {
  try {
    nlohmann::json j = ResultToV2Response::resultToJsonString(res, params);
    const auto &routes = j.at("result").at("routes");
    if (j.at("status").get<std::string>() != "success" || routes.size() != res.alternatives.size()) { out << " | RENDER shape"; return; }
    if (j.at("result").at("totalRoutesCalculated").get<long long>() != res.totalAlternativesCalculated) out << " | RENDER totalRoutesCalculated";
    for (size_t i = 0; i < res.alternatives.size(); i++)
      if (routeTextFromJson(routes.at(i)) != routeText(*res.alternatives[i])) { out << " | RENDER route " << i; break; }
  } catch (std::exception &e) { out << " | RENDER exception"; }
}

static void printOpt() {
  out << " | opt";
  if (g_optlines.empty()) return;
  std::string s = g_optlines.back();
  size_t p = s.find("used ");
  if (p == std::string::npos) return;
  std::string rest = s.substr(p + 5);
  std::stringstream ss(rest);
  std::string item;
  while (std::getline(ss, item, '|')) {
    while (!item.empty() && item.back() == ' ') item.pop_back();
    if (item == "CSL") out << " 1"; else if (item == "BTS") out << " 2"; else if (item == "GTF") out << " 3"; else if (item == "CSS") out << " 4";
  }
}

static void printExn(const char *kind, const std::exception &e) {
  if (dynamic_cast<const std::bad_alloc *>(&e)) { out << kind << " hang"; return; }
  int tag = 9;
  if (dynamic_cast<const std::out_of_range *>(&e)) tag = 1;
  else if (dynamic_cast<const std::bad_optional_access *>(&e)) tag = 2;
  out << kind << " exn " << tag;
}

struct Q { int scen, time, minw, maxtt, maxacc, maxegr, maxtr, maxfw, fwd; };
static Q readQ() { Q q; q.scen = nextInt(); q.time = nextInt(); q.minw = nextInt(); q.maxtt = nextInt(); q.maxacc = nextInt(); q.maxegr = nextInt(); q.maxtr = nextInt(); q.maxfw = nextInt(); q.fwd = nextInt(); return q; }

static bool readDataset(Dataset &ds) {
  ds = Dataset();
  for (;;) {
    std::string t = nextTok();
    if (t == "nodes") ds.nodes = countedInts();
    else if (t == "fp") { int n = nextInt(); ds.fp.push_back({n, countedRows()}); }
    else if (t == "rfp") { int n = nextInt(); ds.rfp.push_back({n, countedRows()}); }
    else if (t == "line") { LineD l; l.id = nextInt(); l.agency = nextInt(); l.mode = nextInt(); ds.lines.push_back(l); }
    else if (t == "path") { PathD p; p.id = nextInt(); p.line = nextInt(); p.nodes = countedInts(); p.dists = countedInts(); ds.paths.push_back(p); }
    else if (t == "trip") { TripD tr; tr.id = nextInt(); tr.path = nextInt(); tr.service = nextInt(); int n = nextInt(); for (int i = 0; i < n; i++) { StopTime s; s.arr = nextInt(); s.dep = nextInt(); s.cb = nextInt(); s.cu = nextInt(); tr.times.push_back(s); } ds.trips.push_back(tr); }
    else if (t == "scen") { ScenD s; s.id = nextInt(); for (int k = 0; k < 9; k++) s.l[k] = countedInts(); ds.scens.push_back(s); }
    else if (t == "end") break;
    else { fprintf(stderr, "dataset: unexpected token %s\n", t.c_str()); return false; }
  }
  return true;
}

// The request as the HTTP handlers see it: a (key, value) list handed to the parameter FACTORY, so that the factory's
// normalisations (non-positive limits, defaults) and the scans' tests on the normalised values are exercised together.
// "no limit" (MAX_INT) is sent as 0, the disabled first-waiting cap (-1) as 0 or -1 alternately.
static std::vector<std::pair<std::string, std::string>> requestKv(const Q &q, int alt, bool access) {
  auto lim = [](long long v) { return std::to_string(v == 2147483647LL ? 0LL : v); };
  std::vector<std::pair<std::string, std::string>> kv;
  if (access) kv.push_back({"place", q.fwd ? "1.0,1.0" : "1.0,2.0"});
  else { kv.push_back({"origin", "1.0,1.0"}); kv.push_back({"destination", "2.0,2.0"}); }
  kv.push_back({"scenario_id", boost::uuids::to_string(uuidOf(K_SCEN, q.scen))});
  kv.push_back({"time_of_trip", std::to_string(q.time)});
  kv.push_back({"time_type", q.fwd ? "0" : "1"});
  kv.push_back({"min_waiting_time", std::to_string(q.minw)});
  kv.push_back({"max_travel_time", lim(q.maxtt)});
  kv.push_back({"max_access_travel_time", lim(q.maxacc)});
  kv.push_back({"max_egress_travel_time", lim(q.maxegr)});
  kv.push_back({"max_transfer_travel_time", lim(q.maxtr)});
  kv.push_back({"max_first_waiting_time", q.maxfw == -1 ? ((q.time % 2) ? "0" : "-1") : std::to_string(q.maxfw)});
  if (!access) kv.push_back({"alternatives", alt ? "true" : "false"});
  return kv;
}

static std::string doRoute(TransitData &td, const Q &q, int alt, const std::vector<Row> &acc, const std::vector<Row> &egr) {
  TableGeoFilter geo;
  geo.acc = acc; geo.egr = egr;
  g_kind = alt ? "alt" : "route";
  g_optlines.clear();
  out.str(""); out.clear();
  auto sit = td.getScenarios().find(uuidOf(K_SCEN, q.scen));
  if (sit == td.getScenarios().end()) return "route noscenario";
  try {
    Calculator calc(td, geo);
    auto kv = requestKv(q, alt, false);
    RouteParameters params = RouteParameters::createRouteODParameter(kv, td.getScenarios());
    if (alt) {
      AlternativesResult res = calc.alternativesRouting(params);
      out << "alt ok " << res.totalAlternativesCalculated << " " << res.alternatives.size();
      for (auto &r : res.alternatives) { out << " || "; printRoute(*r); }
      checkRenderAlternatives(res, params);
    } else {
      std::unique_ptr<SingleCalculationResult> res = calc.calculateSingle(params);
      printRoute(*res);
      checkRenderSingle(*res, params);
      printOpt();
    }
  } catch (NoRoutingFoundException &e) {
    out.str(""); out.clear();
    out << g_kind << " noroute " << (int)e.getReason();
  } catch (std::exception &e) {
    out.str(""); out.clear();
    printExn(g_kind, e);
  }
  std::string r = out.str();
  out.str(""); out.clear();
  return r;
}

static std::string doAccess(TransitData &td, const Q &q, const std::vector<Row> &rows) {
  TableGeoFilter geo;
  geo.acc = rows; geo.egr = rows;
  g_kind = "access";
  out.str(""); out.clear();
  auto sit = td.getScenarios().find(uuidOf(K_SCEN, q.scen));
  if (sit == td.getScenarios().end()) return "access noscenario";
  try {
    Calculator calc(td, geo);
    auto kv = requestKv(q, 0, true);
    AccessibilityParameters params = AccessibilityParameters::createAccessibilityParameter(kv, td.getScenarios());
    std::unique_ptr<AllNodesResult> res = calc.calculateAllNodes(params);
    out << "access ok " << res->nodes.size() << " " << res->totalNodeCount;
    for (auto &n : res->nodes) out << " | " << idOfUuid(n.node.uuid) << " " << n.arrivalTime << " " << n.totalTravelTime << " " << n.numberOfTransfers;
  } catch (NoRoutingFoundException &e) {
    out.str(""); out.clear();
    out << "access noroute " << (int)e.getReason();
  } catch (std::exception &e) {
    out.str(""); out.clear();
    printExn("access", e);
  }
  std::string r = out.str();
  out.str(""); out.clear();
  return r;
}

int main(int argc, char **argv) {
  if (argc < 2) { fprintf(stderr, "usage: l2 casefile\n"); return 2; }
  {
    std::ifstream in(argv[1]);
    std::string line;
    while (std::getline(in, line)) {
      size_t h = line.find('#');
      if (h != std::string::npos) line = line.substr(0, h);
      std::stringstream ss(line);
      std::string t;
      while (ss >> t) toks.push_back(t);
    }
  }
#if !defined(__SANITIZE_THREAD__)
  struct rlimit rl; rl.rlim_cur = rl.rlim_max = 3ull << 30; setrlimit(RLIMIT_AS, &rl);   // (ThreadSanitizer maps terabytes of shadow)
#endif
  signal(SIGALRM, onSignal); signal(SIGABRT, onSignal); signal(SIGSEGV, onSignal);
  auto logger = std::make_shared<spdlog::logger>("capture", std::make_shared<CaptureSink>());
  logger->set_level(spdlog::level::debug);
  spdlog::set_default_logger(logger);
  spdlog::set_level(spdlog::level::debug);

  if (nextTok() != "dataset") { fprintf(stderr, "expected dataset\n"); return 2; }
  Dataset ds;
  if (!readDataset(ds)) return 2;
  TableDataFetcher fetcher(ds);
  bool cacheAll = getenv("L2_CACHE_ALL") != nullptr;
  TransitData td(fetcher, cacheAll);
  TableGeoFilter geo;   // used by the optimize op only

  while (tp < toks.size()) {
    std::string op = nextTok();
    if (op == "route") {
      Q q = readQ();
      int alt = nextInt();
      std::vector<Row> acc = countedRows();
      std::vector<Row> egr = countedRows();
      alarm(20);
      std::string line = doRoute(td, q, alt, acc, egr);
      alarm(0);
      out << line;
      flushLine();
    } else if (op == "access") {
      Q q = readQ();
      std::vector<Row> rows = countedRows();
      alarm(20);
      std::string line = doAccess(td, q, rows);
      alarm(0);
      out << line;
      flushLine();
    } else if (op == "parallel") {
      // parallel N S s1..sS : the next N route/access operations run concurrently, one thread each; at every
      // yield point of getConnectionsForScenario a thread waits until the schedule names it
      int n = nextInt();
      int sl = nextInt();
      g_sched.clear(); g_spos = 0; g_trace.clear();
      for (int i = 0; i < sl; i++) g_sched.push_back(nextInt());
      struct POp { bool access; Q q; int alt; std::vector<Row> a, e; };
      std::vector<POp> pops;
      for (int i = 0; i < n; i++) {
        std::string k = nextTok();
        POp po; po.access = (k == "access"); po.q = readQ(); po.alt = 0;
        if (po.access) { po.a = countedRows(); } else { po.alt = nextInt(); po.a = countedRows(); po.e = countedRows(); }
        pops.push_back(po);
      }
      g_tdone.assign(n, 0);
      std::vector<std::string> results(n);
      std::vector<std::thread> threads;
      alarm(60);
      for (int i = 0; i < n; i++) {
        threads.emplace_back([&, i]() {
          t_idx = i;
          results[i] = pops[i].access ? doAccess(td, pops[i].q, pops[i].a) : doRoute(td, pops[i].q, pops[i].alt, pops[i].a, pops[i].e);
          schedThreadDone();
        });
      }
      for (auto &t : threads) t.join();
      alarm(0);
      out << "parallel";
      for (auto &tr : g_trace) out << " " << tr;
      flushLine();
      for (int i = 0; i < n; i++) { out << results[i]; flushLine(); }
    } else if (op == "stress") {
      // stress T R Y J N (L i1..iL)*T  then N route/access operations:
      // R rounds; every round builds a FRESH TransitData (empty connection cache) and starts T threads together behind a
      // barrier; thread t executes the operations i1..iL of its list (as written in even rounds, rotated in odd rounds so
      // that the requests that meet right after a publish change from round to round) with NO forced scheduling: the hook yields with
      // probability Y percent or does nothing; J > 0: a thread starts after a random busy wait of 0..J microseconds.
      // Output: for every operation the DISTINCT responses seen over all rounds and threads, with their counts.
      int T = nextInt(), R = nextInt(), Y = nextInt(), J = nextInt(), n = nextInt();
      std::vector<std::vector<int>> lists(T);
      for (int t = 0; t < T; t++) { lists[t] = countedInts(); for (int &x : lists[t]) if (x < 0 || x >= n) { fprintf(stderr, "stress: bad index\n"); return 2; } }
      struct SOp { bool access; Q q; int alt; std::vector<Row> a, e; };
      std::vector<SOp> sops;
      for (int i = 0; i < n; i++) {
        std::string k = nextTok();
        SOp so; so.access = (k == "access"); so.q = readQ(); so.alt = 0;
        if (so.access) { so.a = countedRows(); } else { so.alt = nextInt(); so.a = countedRows(); so.e = countedRows(); }
        sops.push_back(so);
      }
      struct Seen { long count; int round, thread; };
      std::vector<std::map<std::string, Seen>> seen(n);
      long responses = 0;
      g_kind = "stress";
      alarm(900);
      g_free_yield.store(Y < 0 ? 0 : Y);
      int rounds_done = 0;
      // the T threads live for the whole operation (one set of threads per round makes ThreadSanitizer's bookkeeping grow
      // with every round); a round starts when the main thread has built the fresh TransitData and announces it, and the
      // threads then meet at a spin barrier so that they enter the router together
      std::unique_ptr<TransitData> tdr;
      std::mutex rm;
      std::condition_variable rcv, dcv;
      int announced = -1, finished = 0;
      std::atomic<long> ready{0};
      std::vector<std::vector<std::pair<int, std::string>>> results(T);
      std::vector<std::thread> threads;
      for (int t = 0; t < T; t++) {
        threads.emplace_back([&, t]() {
          for (int r = 0; r < R; r++) {
            { std::unique_lock<std::mutex> lk(rm); rcv.wait(lk, [&] { return announced >= r; }); }
            t_rng = 0x9E3779B97F4A7C15ull * (unsigned long long)(r * 64 + t + 1) + 0xD1B54A32D192ED03ull;
            const std::vector<int> &l = lists[t];
            size_t L = l.size();
            size_t rot = (L && (r & 1)) ? ((size_t)(r / 2 + 1) * (size_t)(t + 1)) % L : 0;   // even rounds: the lists as written
            long jit = J > 0 ? (long)(tRand() % (unsigned long long)(J + 1)) : 0;
            TransitData &td_r = *tdr;
            ready.fetch_add(1);
            unsigned spins = 0;
            while (ready.load(std::memory_order_acquire) < (long)T * (r + 1)) { if ((++spins & 255u) == 0) std::this_thread::yield(); }
            if (jit > 0) { auto until = std::chrono::steady_clock::now() + std::chrono::microseconds(jit); while (std::chrono::steady_clock::now() < until) {} }
            for (size_t k = 0; k < L; k++) {
              int i = l[(k + rot) % L];
              const SOp &so = sops[i];
              results[t].push_back({i, so.access ? doAccess(td_r, so.q, so.a) : doRoute(td_r, so.q, so.alt, so.a, so.e)});
            }
            { std::unique_lock<std::mutex> lk(rm); finished++; }
            dcv.notify_one();
          }
        });
      }
      for (int r = 0; r < R; r++) {
        tdr = std::make_unique<TransitData>(fetcher, cacheAll);
        for (auto &v : results) v.clear();
        { std::unique_lock<std::mutex> lk(rm); announced = r; }
        rcv.notify_all();
        { std::unique_lock<std::mutex> lk(rm); dcv.wait(lk, [&] { return finished >= T * (r + 1); }); }
        for (int t = 0; t < T; t++)
          for (auto &pr : results[t]) {
            responses++;
            auto it = seen[pr.first].find(pr.second);
            if (it == seen[pr.first].end()) seen[pr.first][pr.second] = Seen{1, r, t}; else it->second.count++;
          }
        tdr.reset();
        rounds_done++;
      }
      for (auto &t : threads) t.join();
      g_free_yield.store(-1);
      alarm(0);
      g_kind = "stress";
      out << "stress " << T << " " << rounds_done << " " << responses;
      flushLine();
      for (int i = 0; i < n; i++)
        for (auto &kv : seen[i]) { out << "sr " << i << " " << kv.second.count << " " << kv.second.round << " " << kv.second.thread << " | " << kv.first; flushLine(); }
      out << "stress done";
      flushLine();
    } else if (op == "params") {
      // params route|access K (keyhex valhex)*K : L1 test of the parameter factories on a (key, value) list
      std::string kind = nextTok();
      int k = nextInt();
      std::vector<std::pair<std::string, std::string>> kv;
      auto unhex = [](const std::string &h) { std::string o; if (h == "-") return o; for (size_t i = 0; i + 1 < h.size(); i += 2) o.push_back((char)strtol(h.substr(i, 2).c_str(), nullptr, 16)); return o; };
      for (int i = 0; i < k; i++) { std::string a = unhex(nextTok()); std::string b = unhex(nextTok()); kv.push_back({a, b}); }
      g_kind = "params";
      try {
        if (kind == "route") {
          RouteParameters p = RouteParameters::createRouteODParameter(kv, td.getScenarios());
          out << "params ok " << p.getTimeOfTrip() << " " << p.getMinWaitingTimeSeconds() << " " << p.getMaxTotalTravelTimeSeconds() << " " << p.getMaxAccessWalkingTravelTimeSeconds() << " "
              << p.getMaxEgressWalkingTravelTimeSeconds() << " " << p.getMaxTransferWalkingTravelTimeSeconds() << " " << p.getMaxFirstWaitingTimeSeconds() << " " << (p.isForwardCalculation() ? 1 : 0) << " "
              << (p.isWithAlternatives() ? 1 : 0) << " " << idOfUuid(p.getScenario().uuid);
        } else {
          AccessibilityParameters p = AccessibilityParameters::createAccessibilityParameter(kv, td.getScenarios());
          out << "params ok " << p.getTimeOfTrip() << " " << p.getMinWaitingTimeSeconds() << " " << p.getMaxTotalTravelTimeSeconds() << " " << p.getMaxAccessWalkingTravelTimeSeconds() << " "
              << p.getMaxEgressWalkingTravelTimeSeconds() << " " << p.getMaxTransferWalkingTravelTimeSeconds() << " " << p.getMaxFirstWaitingTimeSeconds() << " " << (p.isForwardCalculation() ? 1 : 0) << " 0 "
              << idOfUuid(p.getScenario().uuid);
        }
      } catch (ParameterException &e) {
        out.str(""); out.clear();
        out << "params err " << (int)e.getType();
      } catch (std::exception &e) {
        out.str(""); out.clear();
        out << "params exn";
      }
      flushLine();
    } else if (op == "refresh") {
      // refresh <kind> dataset ... end : the files now encode the new dataset; kind 0 = all caches (the
      // /updateCache handler's order), 1 = schedules, 2 = scenarios then schedules
      int kind = nextInt();
      if (nextTok() != "dataset") { fprintf(stderr, "refresh: expected dataset\n"); return 2; }
      if (!readDataset(ds)) return 2;
      g_kind = "refresh";
      alarm(20);
      try {
        if (kind == 0) { td.updateDataSources(); td.updatePersons(); td.updateOdTrips(); td.updateAgencies(); td.updateServices(); td.updateNodes(); td.updateLines(); td.updatePaths(); td.updateScenarios(); td.updateSchedules(); }
        else if (kind == 1) { td.updateSchedules(); }
        else { td.updateScenarios(); td.updateSchedules(); }
        out << "refresh ok " << (int)td.getDataStatus();
      } catch (std::exception &e) { printExn("refresh", e); }
      alarm(0);
      flushLine();
    } else if (op == "index") {
      int sc = nextInt();
      g_kind = "index";
      auto sit = td.getScenarios().find(uuidOf(K_SCEN, sc));
      if (sit == td.getScenarios().end()) { out << "index noscenario"; flushLine(); continue; }
      std::shared_ptr<ConnectionSet> cs = td.getConnectionsForScenario(sit->second);
      out << "index f";
      for (auto it : cs->forwardConnectionsBeginIteratorCache) out << " " << (it - cs->forwardConnections.cbegin());
      out << " r";
      for (auto it : cs->reverseConnectionsBeginIteratorCache) out << " " << (it - cs->reverseConnections.cbegin());
      out << " lf";
      for (int h = -2; h <= 40; h++) {
        g_jmp_armed = 1;
        if (sigsetjmp(g_jmp, 1) == 0) {
          auto it = cs->getForwardConnectionsBeginAtDepartureHour(h);
          g_jmp_armed = 0;
          long idx = it - cs->forwardConnections.cbegin();
          if (idx < 0 || idx > (long)cs->forwardConnections.size()) out << " oob"; else out << " " << idx;
        } else { out << " oob"; }
      }
      out << " lr";
      for (int h = -2; h <= 40; h++) {
        g_jmp_armed = 1;
        if (sigsetjmp(g_jmp, 1) == 0) {
          auto it = cs->getReverseConnectionsBeginAtArrivalHour(h);
          g_jmp_armed = 0;
          long idx = it - cs->reverseConnections.cbegin();
          if (idx < 0 || idx > (long)cs->reverseConnections.size()) out << " oob"; else out << " " << idx;
        } else { out << " oob"; }
      }
      flushLine();
    } else if (op == "optimize") {
      // optimize <minw> accnode accw accd egrnode egrw egrd K (trip enterSeq exitSeq walk dist)*K : L1 test of
      // Calculator::optimizeJourney on a crafted journey (access . legs . egress)
      nextInt();
      int accnode = nextInt(), accw = nextInt(), accd = nextInt(), egrnode = nextInt(), egrw = nextInt(), egrd = nextInt();
      (void)accnode; (void)egrnode;
      int k = nextInt();
      g_kind = "optimize";
      std::deque<JourneyStep> journey;
      journey.push_back(JourneyStep(std::nullopt, std::nullopt, std::nullopt, accw, false, accd));
      bool bad = false;
      for (int i = 0; i < k; i++) {
        int t = nextInt(), es = nextInt(), xs = nextInt(), w = nextInt(), dd = nextInt();
        auto it = td.getTrips().find(uuidOf(K_TRIP, t));
        if (it == td.getTrips().end()) { bad = true; continue; }
        const Trip &trip = it->second;
        std::optional<std::reference_wrapper<const Connection>> en, ex;
        for (auto &c : trip.forwardConnections) { if (c.get().getSequenceInTrip() == es) en = c; if (c.get().getSequenceInTrip() == xs) ex = c; }
        if (!en.has_value() || !ex.has_value()) { bad = true; continue; }
        journey.push_back(JourneyStep(en, ex, std::cref(trip), w, false, dd));
      }
      journey.push_back(JourneyStep(std::nullopt, std::nullopt, std::nullopt, egrw, false, egrd));
      if (bad) { out << "optimize badinput"; flushLine(); continue; }
      alarm(10);
      try {
        Calculator calc(td, geo);
        std::vector<int> used = calc.optimizeJourney(journey);
        out << "optimize ok";
        for (int u : used) out << " " << u;
        for (auto &js : journey) {
          if (js.hasConnections())
            out << " | " << idOfUuid(js.getFinalTrip().value().get().uuid) << " " << js.getFinalEnterConnection().value().get().getSequenceInTrip() << " "
                << js.getFinalExitConnection().value().get().getSequenceInTrip() << " " << js.getTransferTravelTime() << " " << js.getTransferDistance();
          else
            out << " | W " << js.getTransferTravelTime() << " " << js.getTransferDistance();
        }
      } catch (std::exception &e) {
        out.str(""); out.clear();
        printExn("optimize", e);
      }
      alarm(0);
      flushLine();
    } else {
      fprintf(stderr, "unexpected op %s\n", op.c_str());
      return 2;
    }
  }
  return 0;
}
