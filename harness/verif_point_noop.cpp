// default (no-op) implementation of the verification hook for binaries that do not schedule threads
extern "C" void trrouting_verif_point(const char*) {}
